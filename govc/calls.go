package main

import (
	"fmt"
	"go/token"
	"go/types"
	"strings"

	"golang.org/x/tools/go/ssa"
)

type callPlan struct {
	kind string // builtin | inline | contract | intrinsic | pure | noeffect | havoc
	fn   *ssa.Function
	fc   *FuncContract
	cl   *closure
	name string
	sig  *types.Signature
	recv bool // args[0] is the receiver
	// owner is the object holding the func-typed field being called; it is
	// passed to the field's contract as `self`
	owner ssa.Value
}

// packages whose functions are assumed not to touch the heap of the verified
// packages beyond the objects directly passed to them
var noEffectPkgs = []string{
	"fmt", "errors", "strings", "bytes", "strconv", "math", "math/bits", "math/rand", "math/rand/v2", "time",
	"sync", "sync/atomic", "context", "sort", "slices", "maps", "unicode", "unicode/utf8", "path", "path/filepath",
	"log", "log/slog", "go.uber.org/zap", "github.com/ipfs/go-log/v2", "go.opentelemetry.io/", "github.com/prometheus/",
	"github.com/ipfs/go-cid", "github.com/multiformats/", "encoding/binary", "encoding/hex", "encoding/base64", "encoding/json",
	"io", "os", "net/url", "net/http", "regexp", "hash", "crypto/", "unsafe", "runtime", "reflect", "iter", "cmp",
	"github.com/ipfs/go-block-format", "github.com/ipfs/go-ipld-format", "github.com/libp2p/go-libp2p/core/peer",
	"github.com/ipfs/go-metrics-interface", "github.com/ipfs/boxo/tracing", "go.uber.org/multierr", "internal/",
	"github.com/google/uuid", "github.com/ipfs/go-datastore", "github.com/ipfs/boxo/util", "github.com/ipfs/boxo/internal",
	"github.com/gammazero/", "github.com/libp2p/go-libp2p/core/", "github.com/ipfs/go-ipfs-delay", "github.com/ipld/go-ipld-prime",
	"github.com/ipfs/go-unixfsnode", "github.com/ipld/go-codec-dagpb", "google.golang.org/protobuf", "github.com/ipfs/bbloom",
	"github.com/hashicorp/golang-lru", "github.com/dustin/go-humanize", "github.com/gabriel-vasile/mimetype", "mime", "html",
	"net", "github.com/multiformats", "github.com/libp2p/go-libp2p", "github.com/ipfs/go-peertaskqueue", "github.com/ipfs/go-ipld-cbor",
	"github.com/ipfs/go-bitfield", "github.com/spaolacci/murmur3", "github.com/whyrusleeping/chunker", "github.com/libp2p/go-buffer-pool",
	"github.com/cespare/xxhash", "github.com/filecoin-project/go-clock", "golang.org/x/",
}

// packages whose calls are dropped entirely (logger, tracing spans, metrics,
// mutexes, contexts): they never write state a contract talks about
var silentPkgs = []string{"go.uber.org/zap", "github.com/ipfs/go-log/v2", "go.opentelemetry.io/", "github.com/prometheus/",
	"log", "log/slog", "context", "sync", "time", "errors", "github.com/ipfs/go-metrics-interface", "github.com/ipfs/boxo/tracing"}

func (f *Frame) silentCallee(ci ssa.CallInstruction, p callPlan) bool {
	pkg := ""
	if p.fn != nil {
		pkg = pkgPathOf(p.fn)
	} else if ci != nil && ci.Common().IsInvoke() && ci.Common().Method.Pkg() != nil {
		pkg = ci.Common().Method.Pkg().Path()
	}
	if pkg == "" {
		return false
	}
	// per-package tracing helpers: <pkg>/internal.StartSpan(ctx, name, ...)
	if p.fn != nil && p.fn.Name() == "StartSpan" && strings.HasSuffix(pkg, "/internal") {
		return true
	}
	for _, n := range silentPkgs {
		if pkg == n || strings.HasPrefix(pkg, n+"/") || (strings.HasSuffix(n, "/") && strings.HasPrefix(pkg, n)) {
			return true
		}
	}
	return false
}

var neverPure = map[string]bool{"time.Now": true, "time.Since": true, "time.Until": true}

func pkgPathOf(fn *ssa.Function) string {
	if fn.Pkg != nil {
		return fn.Pkg.Pkg.Path()
	}
	if o := fn.Object(); o != nil && o.Pkg() != nil {
		return o.Pkg().Path()
	}
	if o := fn.Origin(); o != nil {
		return pkgPathOf(o)
	}
	if fn.Parent() != nil {
		return pkgPathOf(fn.Parent())
	}
	return ""
}

func isNoEffectPkg(p string) bool {
	for _, n := range noEffectPkgs {
		if p == n || strings.HasPrefix(p, n+"/") || (strings.HasSuffix(n, "/") && strings.HasPrefix(p, n)) {
			return true
		}
	}
	return false
}

func valueOnly(t types.Type, depth int) bool {
	if depth > 4 {
		return false
	}
	switch u := t.Underlying().(type) {
	case *types.Basic:
		return u.Kind() != types.UnsafePointer
	case *types.Struct:
		for i := 0; i < u.NumFields(); i++ {
			if !valueOnly(u.Field(i).Type(), depth+1) {
				return false
			}
		}
		return true
	case *types.Array:
		return valueOnly(u.Elem(), depth+1)
	}
	return false
}

func (f *Frame) resolve(ci ssa.CallInstruction) callPlan {
	c := f.c
	cm := ci.Common()
	sig := cm.Signature()
	if cm.IsInvoke() {
		it := cm.Value.Type()
		cands := []string{}
		if n, ok := it.(*types.Named); ok && n.Obj().Pkg() != nil {
			cands = append(cands, "iface:"+n.Obj().Pkg().Path()+"."+n.Obj().Name()+"."+cm.Method.Name())
		} else if n, ok := it.(*types.Named); ok {
			cands = append(cands, "iface:"+n.Obj().Name()+"."+cm.Method.Name())
		}
		if rs := cm.Method.Type().(*types.Signature).Recv(); rs != nil {
			if n, ok := rs.Type().(*types.Named); ok && n.Obj().Pkg() != nil {
				cands = append(cands, "iface:"+n.Obj().Pkg().Path()+"."+n.Obj().Name()+"."+cm.Method.Name())
			}
		}
		for _, k := range cands {
			if fc, ok := c.db.funcs[k]; ok {
				return planFromContract(fc, callPlan{name: k, sig: sig, recv: true})
			}
		}
		name := "invoke " + cm.Method.FullName()
		pkg := ""
		if cm.Method.Pkg() != nil {
			pkg = cm.Method.Pkg().Path()
		}
		if cm.Method.Pkg() == nil || isNoEffectPkg(pkg) {
			return callPlan{kind: "noeffect", name: name, sig: sig, recv: true}
		}
		return callPlan{kind: "havoc", name: name, sig: sig, recv: true}
	}
	switch v := cm.Value.(type) {
	case *ssa.Builtin:
		return callPlan{kind: "builtin", name: v.Name(), sig: sig}
	case *ssa.Function:
		return f.resolveStatic(v, nil, sig)
	case *ssa.MakeClosure:
		return f.resolveStatic(v.Fn.(*ssa.Function), f.closures[v], sig)
	}
	if cl := f.closures[cm.Value]; cl != nil {
		return f.resolveStatic(cl.fn, cl, sig)
	}
	// function values read from a package-level variable or a struct field may
	// carry an (assumed) contract keyed by the variable / field
	if u, ok := cm.Value.(*ssa.UnOp); ok && u.Op == token.MUL {
		key := ""
		var owner ssa.Value
		switch x := u.X.(type) {
		case *ssa.Global:
			if x.Pkg != nil {
				key = "global:" + x.Pkg.Pkg.Path() + "." + x.Name()
			}
		case *ssa.FieldAddr:
			if pt, ok := x.X.Type().Underlying().(*types.Pointer); ok {
				if st, ok := pt.Elem().Underlying().(*types.Struct); ok {
					key = "field:" + typeKey(pt.Elem()) + "." + st.Field(x.Field).Name()
					owner = x.X
				}
			}
		}
		if fc, ok := c.db.funcs[key]; ok && key != "" {
			// for a func-typed field the object holding the field is passed as `self`
			return planFromContract(fc, callPlan{name: key, sig: sig, owner: owner, recv: owner != nil})
		}
	}
	if f.fc != nil && len(f.fc.Dyn) > 0 {
		for sel, k := range f.siteOrd[ci] {
			for _, key := range []string{sel, fmt.Sprintf("%s#%d", sel, k)} {
				if pol, ok := f.fc.Dyn[key]; ok {
					return callPlan{kind: "noeffect", name: "dynamic call " + key + " (declared " + pol + ")", sig: sig}
				}
			}
		}
	}
	return callPlan{kind: "havoc", name: "dynamic call", sig: sig}
}

func planFromContract(fc *FuncContract, p callPlan) callPlan {
	p.fc = fc
	switch {
	case fc.Inline && p.fn != nil && len(p.fn.Blocks) > 0:
		p.kind = "inline"
	case fc.Havoc:
		p.kind = "havoc"
	default:
		p.kind = "contract"
	}
	return p
}

func (f *Frame) onStack(fn *ssa.Function) bool {
	for fr := f; fr != nil; fr = fr.parent {
		if fr.fn == fn {
			return true
		}
	}
	return false
}

func (f *Frame) resolveStatic(fn *ssa.Function, cl *closure, sig *types.Signature) callPlan {
	c := f.c
	p := callPlan{fn: fn, cl: cl, sig: fn.Signature, name: fn.String(), recv: fn.Signature.Recv() != nil}
	if fc, ok := c.db.funcs[funcKey(fn)]; ok {
		pl := planFromContract(fc, p)
		if pl.kind == "inline" && (f.onStack(fn) || f.depth > 5) {
			pl.kind = "havoc"
		}
		return pl
	}
	if (fn.Parent() != nil || cl != nil) && len(fn.Blocks) > 0 {
		if f.onStack(fn) || f.depth > 5 {
			p.kind = "havoc"
			return p
		}
		p.kind = "inline"
		return p
	}
	if _, ok := intrinsics[fn.String()]; ok {
		p.kind = "intrinsic"
		return p
	}
	pkg := pkgPathOf(fn)
	if fn.Name() == "StartSpan" && strings.HasSuffix(pkg, "/internal") {
		p.kind = "noeffect"
		return p
	}
	// Helpers of the repository without a contract of their own are expanded
	// from source (so that extracting a helper from a verified function does
	// not lose the proof); large, recursive or deeply nested ones are havocked.
	if strings.HasPrefix(pkg, "github.com/ipfs/boxo") && len(fn.Blocks) > 0 && len(fn.Blocks) <= 40 &&
		!f.onStack(fn) && f.depth < 3 && fn.Signature.TypeParams().Len() == 0 {
		p.kind = "inline"
		return p
	}
	if isNoEffectPkg(pkg) {
		p.kind = "noeffect"
		// deterministic value-only functions become uninterpreted functions
		if !neverPure[fn.String()] && fn.Signature.Results().Len() > 0 {
			ok := fn.Signature.Params().Len() > 0 || fn.Signature.Recv() != nil
			if r := fn.Signature.Recv(); r != nil && !valueOnly(r.Type(), 0) {
				ok = false
			}
			for i := 0; i < fn.Signature.Params().Len(); i++ {
				if !valueOnly(fn.Signature.Params().At(i).Type(), 0) {
					ok = false
				}
			}
			if fn.Signature.Variadic() {
				ok = false
			}
			if ok && !strings.HasPrefix(pkg, "math/rand") && pkg != "os" && pkg != "runtime" && pkg != "sync/atomic" {
				p.kind = "pure"
			}
		}
		return p
	}
	p.kind = "havoc"
	return p
}

// callEffects is the static over-approximation of the heap components a call writes.
func (f *Frame) callEffects(ci ssa.CallInstruction) effects {
	c := f.c
	p := f.resolve(ci)
	eff := effects{comps: map[string]bool{}}
	cm := ci.Common()
	switch p.kind {
	case "builtin":
		switch p.name {
		case "append", "copy":
			if st, ok := cm.Args[0].Type().Underlying().(*types.Slice); ok {
				eff.comps[c.elemComp(st.Elem())] = true
			}
		case "delete", "clear":
			if mt, ok := cm.Args[0].Type().Underlying().(*types.Map); ok {
				has, val, ln := c.mapComps(mt)
				eff.comps[has], eff.comps[val], eff.comps[ln] = true, true, true
			}
		}
	case "inline":
		eff.inline = p.fn
	case "contract":
		if p.fc.ModAll {
			eff.all = true
			break
		}
		if p.fc.ModHeap {
			eff.comps["*heap"] = true
		}
		if p.fc.WritesArgs {
			wa := cm.Args
			if cm.IsInvoke() {
				wa = append([]ssa.Value{cm.Value}, wa...)
			}
			for _, a := range wa {
				for _, k := range f.directComps(a) {
					eff.comps[k] = true
				}
			}
		}
		ks, ok := f.modifiesComps(p)
		if !ok {
			eff.all = true
		}
		for _, k := range ks {
			eff.comps[k] = true
		}
	case "intrinsic", "pure":
	case "noeffect":
		if f.silentCallee(ci, p) {
			break
		}
		args := cm.Args
		if cm.IsInvoke() {
			args = append([]ssa.Value{cm.Value}, args...)
		}
		for _, a := range args {
			for _, k := range f.directComps(a) {
				eff.comps[k] = true
			}
		}
	default:
		eff.all = true
	}
	return eff
}

// unwrapIface looks through a conversion to an interface type: the value a
// callee without contract can reach is the converted value. known is false for
// an interface value whose dynamic value is not visible here, unless its type
// cannot carry verified heap state (context.Context, error).
func unwrapIface(a ssa.Value) (ssa.Value, bool) {
	if _, ok := a.Type().Underlying().(*types.Interface); !ok {
		return a, true
	}
	for {
		switch x := a.(type) {
		case *ssa.MakeInterface:
			return x.X, true
		case *ssa.ChangeInterface:
			a = x.X
			continue
		case *ssa.Const:
			return a, true // nil interface
		}
		break
	}
	switch a.Type().String() {
	case "context.Context", "error":
		return a, true
	}
	return a, false
}

// directComps lists the components of the object directly referenced by a value.
func (f *Frame) directComps(a ssa.Value) []string {
	c := f.c
	if a2, known := unwrapIface(a); known {
		a = a2
	}
	switch t := a.Type().Underlying().(type) {
	case *types.Slice:
		return []string{c.elemComp(t.Elem())}
	case *types.Pointer:
		saved := f.shape
		f.shape = true
		l := f.locOf(a)
		f.shape = saved
		return c.compsOfLoc(l)
	case *types.Map:
		has, val, ln := c.mapComps(t)
		return []string{has, val, ln}
	}
	return nil
}

// doCall executes a call and records its results under its site selectors so
// that contracts can refer to them as res("<selector>#k", i).
func (f *Frame) doCall(ci ssa.CallInstruction, st *State, reach Term) []Term {
	out := f.doCallInner(ci, st, reach)
	if f.callRes == nil {
		f.callRes = map[string][]Val{}
	}
	results := ci.Common().Signature().Results()
	var vals []Val
	for i, t := range out {
		var gt types.Type
		if i < results.Len() {
			gt = results.At(i).Type()
		}
		vals = append(vals, Val{T: t, GT: gt})
	}
	for sel, k := range f.siteOrd[ci] {
		f.callRes[fmt.Sprintf("%s#%d", sel, k)] = vals
		f.callRes[fmt.Sprintf("reach:%s#%d", sel, k)] = []Val{{T: reach, GT: types.Typ[types.Bool]}}
	}
	return out
}

// recordReached makes called("<selector>#k") available for non-call sites
// (sends and selects).
func (f *Frame) recordReached(in ssa.Instruction, reach Term) {
	if f.callRes == nil {
		f.callRes = map[string][]Val{}
	}
	for sel, k := range f.siteOrd[in] {
		f.callRes[fmt.Sprintf("reach:%s#%d", sel, k)] = []Val{{T: reach, GT: types.Typ[types.Bool]}}
	}
}

func (f *Frame) doCallInner(ci ssa.CallInstruction, st *State, reach Term) []Term {
	c := f.c
	cm := ci.Common()
	p := f.resolve(ci)
	var args []Val
	var argVals []ssa.Value
	if cm.IsInvoke() {
		args = append(args, f.valTyped(cm.Value))
		argVals = append(argVals, cm.Value)
	}
	if p.owner != nil {
		args = append(args, f.valTyped(p.owner))
		argVals = append(argVals, p.owner)
	}
	for _, a := range cm.Args {
		args = append(args, f.valTyped(a))
		argVals = append(argVals, a)
	}
	f.checkSites(ci, st, reach, args)
	results := cm.Signature().Results()
	where := f.pos(ci)
	switch p.kind {
	case "builtin":
		return f.builtin(ci, p.name, args, st, reach)
	case "inline":
		return f.inline(p, argVals, args, st, reach, where)
	case "contract":
		return f.applyContract(p, args, st, reach, where, ci)
	case "intrinsic":
		return intrinsics[p.fn.String()](f, args, st, reach, results)
	case "pure":
		var ts []Term
		var sorts []string
		for _, a := range args {
			ts = append(ts, a.T)
			sorts = append(sorts, string(a.T.Sort))
		}
		var out []Term
		for i := 0; i < results.Len(); i++ {
			rs := c.sortOf(results.At(i).Type())
			name := fmt.Sprintf("uf_%s_r%d", sanitize(strings.ReplaceAll(p.fn.String(), "github.com/", "")), i)
			c.declare(name, fmt.Sprintf("(declare-fun %s (%s) %s)", name, strings.Join(sorts, " "), rs))
			c.ufs[p.fn.String()] = true
			r := app(rs, name, ts...)
			c.assume(c.valueInv(r, results.At(i).Type(), st), false)
			out = append(out, r)
		}
		return out
	case "noeffect":
		if f.silentCallee(ci, p) {
			c.note("logging/tracing/synchronisation call treated as having no effect on the verified heap: " + p.name)
			return f.havocResults(ci, results, st)
		}
		c.note("call without contract, effects limited to directly passed objects: " + p.name)
		for i, a := range argVals {
			a2, known := unwrapIface(a)
			if !known {
				// an interface value whose dynamic value is not visible here: by the
				// stated assumption on dependency code (it reaches verified state only
				// through objects passed directly) nothing is havocked for it
				c.note("assumed: a dependency callee given an interface value of unknown dynamic type does not write verified in-repo state through it")
				continue
			}
			if a2 != a {
				f.havocDirect(a2, f.val(a2), st)
				continue
			}
			f.havocDirect(a, args[i].T, st)
		}
		return f.havocResults(ci, results, st)
	}
	c.note("call without contract, heap havocked: " + p.name)
	pre := st.clone()
	c.havocAll(st)
	for k, v := range pre.heap {
		if strings.HasPrefix(k, "D|") {
			st.heap[k] = v
		}
	}
	return f.havocResults(ci, results, st)
}

func (f *Frame) havocResults(ci ssa.CallInstruction, results *types.Tuple, st *State) []Term {
	c := f.c
	var out []Term
	hint := "call"
	if v, ok := ci.(ssa.Value); ok {
		hint = v.Name()
	}
	for i := 0; i < results.Len(); i++ {
		r := c.fresh(f.name(fmt.Sprintf("%s_r%d", hint, i)), c.sortOf(results.At(i).Type()))
		// results may reference objects allocated by the callee
		na := c.fresh("alloc", SInt)
		c.assume(app(SBool, ">=", na, st.alloc), false)
		st.alloc = na
		c.assume(c.valueInv(r, results.At(i).Type(), st), false)
		out = append(out, r)
	}
	return out
}

// havocDirect forgets the contents of the object directly referenced by a value.
func (f *Frame) havocDirect(a ssa.Value, t Term, st *State) {
	c := f.c
	switch ty := a.Type().Underlying().(type) {
	case *types.Slice:
		comp := c.elemComp(ty.Elem())
		cur := c.get(st, comp)
		c.set(st, comp, tStore(cur, app(SInt, "sl_arr", t), c.fresh("elems_hv", elemOfArr(cur.Sort))))
	case *types.Pointer:
		l := f.locOf(a)
		switch l.root {
		case rootObj, rootField, rootCell, rootElem, rootGlobal:
			v := c.fresh("obj_hv", c.sortOf(l.typ))
			c.store(st, l, v)
		}
	case *types.Map:
		has, val, ln := c.mapComps(ty)
		for _, k := range []string{has, val, ln} {
			cur := c.get(st, k)
			c.set(st, k, tStore(cur, t, c.fresh("map_hv", elemOfArr(cur.Sort))))
		}
	}
}

// ---------------------------------------------------------------------------
// inlining

func (f *Frame) inline(p callPlan, argVals []ssa.Value, args []Val, st *State, reach Term, where string) []Term {
	c := f.c
	fn := p.fn
	c.inlined[fn.String()] = true
	fr := c.newFrame(fn, f)
	for i, prm := range fn.Params {
		if i < len(args) {
			fr.vals[prm] = args[i].T
			fr.params[prm.Name()] = Val{T: args[i].T, GT: prm.Type()}
			if l, ok := f.locs[argVals[i]]; ok {
				fr.locs[prm] = l
			}
			if cl := f.closures[argVals[i]]; cl != nil {
				fr.closures[prm] = cl
			}
		}
	}
	if p.cl != nil {
		for i, fv := range fn.FreeVars {
			b := p.cl.bindings[i]
			src := p.cl.frame
			fr.vals[fv] = src.val(b)
			if l, ok := src.locs[b]; ok {
				fr.locs[fv] = l
			}
			if cl := src.closures[b]; cl != nil {
				fr.closures[fv] = cl
			}
		}
	}
	ex := fr.run(st, reach)
	results := fn.Signature.Results()
	if ex == nil {
		c.assume(tNot(reach), false)
		return f.havocResults(nil2(f), results, st)
	}
	// continue from the callee's exit state
	*st = *ex.st
	c.assume(tImp(reach, ex.reach), false)
	return ex.results
}

type dummyCall struct{ ssa.CallInstruction }

func nil2(f *Frame) ssa.CallInstruction { return nil }

// ---------------------------------------------------------------------------
// contract application

// calleeEnv builds the environment in which a callee's contract is evaluated.
func (f *Frame) calleeEnv(p callPlan, args []Val, st, old *State) *Env {
	c := f.c
	env := &Env{c: c, vars: map[string]Val{}, st: st, old: old, pkg: pkgByPath[p.fc.Pkg]}
	sig := p.sig
	var names []string
	var ptypes []types.Type
	if p.fn != nil && len(p.fn.Params) == len(args) {
		for _, prm := range p.fn.Params {
			names = append(names, prm.Name())
			ptypes = append(ptypes, prm.Type())
		}
	} else {
		if p.recv {
			n := "self"
			if r := sig.Recv(); r != nil && r.Name() != "" && r.Name() != "_" {
				n = r.Name()
			}
			names = append(names, n)
			if r := sig.Recv(); r != nil {
				ptypes = append(ptypes, r.Type())
			} else if p.owner != nil {
				ptypes = append(ptypes, p.owner.Type())
			} else {
				ptypes = append(ptypes, nil)
			}
		}
		for i := 0; i < sig.Params().Len(); i++ {
			names = append(names, sig.Params().At(i).Name())
			ptypes = append(ptypes, sig.Params().At(i).Type())
		}
	}
	if len(p.fc.Params) > 0 {
		names = p.fc.Params
	}
	for i, a := range args {
		if i < len(ptypes) && ptypes[i] != nil && a.GT == nil {
			a.GT = ptypes[i]
		}
		if i < len(names) && names[i] != "" && names[i] != "_" {
			env.vars[names[i]] = a
		}
		env.vars[fmt.Sprintf("arg%d", i)] = a
	}
	if p.recv && len(args) > 0 {
		env.vars["self"] = args[0]
	}
	if p.cl != nil && p.fn != nil {
		// the contract of a closure may name its captured variables
		cl, fn := p.cl, p.fn
		env.local = func(name string, s *State) (Val, bool) {
			for i, fv := range fn.FreeVars {
				if fv.Name() == name && i < len(cl.bindings) {
					l := cl.frame.locOf(cl.bindings[i])
					return Val{T: c.load(s, l), GT: l.typ}, true
				}
			}
			return Val{}, false
		}
	}
	return env
}

func bindResultNames(env *Env, fc *FuncContract, results *types.Tuple, res []Term) {
	n := results.Len()
	for i := 0; i < n; i++ {
		v := Val{T: res[i], GT: results.At(i).Type()}
		env.vars[fmt.Sprintf("result%d", i)] = v
		if nm := results.At(i).Name(); nm != "" && nm != "_" {
			env.vars[nm] = v
		}
		if i < len(fc.Results) {
			env.vars[fc.Results[i]] = v
		}
	}
	if n == 1 {
		env.vars["result"] = Val{T: res[0], GT: results.At(0).Type()}
	}
	if n > 0 {
		last := results.At(n - 1)
		if types.Identical(last.Type(), types.Universe.Lookup("error").Type()) {
			if _, ok := env.vars["err"]; !ok {
				env.vars["err"] = Val{T: res[n-1], GT: last.Type()}
			}
		}
	}
}

// modTarget describes one modifies entry resolved against concrete arguments.
type modTarget struct {
	comp string
	obj  *Term // nil: the whole component
	keys []Term
}

func (f *Frame) modTargets(p callPlan, env *Env) ([]modTarget, error) {
	c := f.c
	var out []modTarget
	var err error
	func() {
		defer func() {
			if r := recover(); r != nil {
				if ee, ok := r.(evalError); ok {
					err = fmt.Errorf("modifies: %s", ee.msg)
					return
				}
				panic(r)
			}
		}()
		for _, m := range p.fc.Modifies {
			switch m := m.(type) {
			case *ESel:
				v := env.eval(m.X)
				pt, ok := v.GT.Underlying().(*types.Pointer)
				if !ok {
					efail("modifies %s: not a pointer", m.String())
				}
				st, ok := pt.Elem().Underlying().(*types.Struct)
				if !ok {
					efail("modifies %s: not a struct pointer", m.String())
				}
				idx, _, path := findField(st, m.Name)
				if idx < 0 || len(path) != 1 {
					efail("modifies %s: no direct field", m.String())
				}
				t := v.T
				out = append(out, modTarget{comp: c.fieldComp(pt.Elem(), idx), obj: &t})
			case *ECall:
				id, _ := m.Fun.(*EIdent)
				if id == nil {
					efail("modifies %s", m.String())
				}
				switch id.Name {
				case "fields":
					v := env.eval(m.Args[0])
					pt, ok := v.GT.Underlying().(*types.Pointer)
					if !ok {
						efail("fields(): not a pointer")
					}
					t := v.T
					for _, k := range c.compsOfLoc(c.objLoc(v.T, pt.Elem())) {
						out = append(out, modTarget{comp: k, obj: &t})
					}
				case "elems":
					v := env.eval(m.Args[0])
					st, ok := v.GT.Underlying().(*types.Slice)
					if !ok {
						efail("elems(): not a slice")
					}
					t := app(SInt, "sl_arr", v.T)
					out = append(out, modTarget{comp: c.elemComp(st.Elem()), obj: &t})
				case "mapof":
					v := env.eval(m.Args[0])
					mt, ok := v.GT.Underlying().(*types.Map)
					if !ok {
						efail("mapof(): not a map")
					}
					has, val, ln := c.mapComps(mt)
					t := v.T
					for _, k := range []string{has, val, ln} {
						out = append(out, modTarget{comp: k, obj: &t})
					}
				default:
					sf, ok := c.db.specs[id.Name]
					if !ok || !sf.Ghost {
						efail("modifies %s: not a ghost", m.String())
					}
					var keys []Term
					sig := c.specSig(sf)
					for i, a := range m.Args {
						v := env.coerce(env.eval(a), Val{T: T(sig.params[i], ""), GT: sig.ptypes[i]})
						keys = append(keys, v.T)
					}
					out = append(out, modTarget{comp: c.ghostKey(sf), keys: keys})
				}
			case *EIdent:
				if sf, ok := c.db.specs[m.Name]; ok && sf.Ghost {
					out = append(out, modTarget{comp: c.ghostKey(sf)})
					break
				}
				efail("modifies %s: unsupported", m.String())
			default:
				efail("modifies %s: unsupported", m.String())
			}
		}
	}()
	return out, err
}

func (f *Frame) modifiesComps(p callPlan) ([]string, bool) {
	ts, _, err := f.modTargetsShapeErr(p)
	if err != nil {
		return nil, false
	}
	var ks []string
	for _, t := range ts {
		ks = append(ks, t.comp)
	}
	return ks, true
}

func (f *Frame) modTargetsShape(p callPlan) ([]modTarget, []string) {
	ts, names, err := f.modTargetsShapeErr(p)
	if err != nil {
		return nil, nil
	}
	return ts, names
}

// modTargetsShapeErr resolves the modifies clause against dummy arguments
// named ?arg0, ?arg1, ... (shape-only evaluation).
func (f *Frame) modTargetsShapeErr(p callPlan) ([]modTarget, []string, error) {
	var args []Val
	var names []string
	n := p.sig.Params().Len()
	if p.recv {
		n++
	}
	for i := 0; i < n; i++ {
		var t types.Type
		if p.recv && i == 0 {
			if r := p.sig.Recv(); r != nil {
				t = r.Type()
			} else if p.owner != nil {
				t = p.owner.Type()
			}
		} else if p.recv {
			t = p.sig.Params().At(i - 1).Type()
		} else {
			t = p.sig.Params().At(i).Type()
		}
		s := SInt
		if t != nil {
			s = f.c.sortOf(t)
		} else {
			s = SIface
		}
		nm := fmt.Sprintf("?arg%d", i)
		names = append(names, nm)
		args = append(args, Val{T: T(s, nm), GT: t})
	}
	dummy := &State{heap: map[string]Term{}, alloc: intLit(0)}
	env := f.calleeEnv(p, args, dummy, dummy)
	ts, err := f.modTargets(p, env)
	return ts, names, err
}

func (f *Frame) applyContract(p callPlan, args []Val, st *State, reach Term, where string, ci ssa.CallInstruction) []Term {
	c := f.c
	fc := p.fc
	if fc.Arith != "" {
		cm := fc.Arith
		if cm == "int-assumed" {
			cm = "int"
		}
		if cm != c.mode {
			// A function verified under `arith int-assumed` already assumes that no machine
			// arithmetic overflows; under that same (recorded) assumption a contract proved
			// over bit vectors reads the same over the integers, and vice versa. Only exact
			// `int` contracts stay strict.
			root := f
			for root.parent != nil {
				root = root.parent
			}
			callerAssumed := root.fc != nil && root.fc.Arith == "int-assumed"
			switch {
			case callerAssumed && fc.Arith == "bv":
				c.note(fmt.Sprintf("contract of %s (proved over 64-bit vectors) used with mathematical integers: no overflow assumed", strings.ReplaceAll(p.name, "github.com/ipfs/boxo/", "")))
			case c.mode == "bv" && fc.Arith == "int-assumed":
				c.note(fmt.Sprintf("contract of %s (proved with machine arithmetic treated as mathematical) used over 64-bit vectors: no overflow assumed inside it", strings.ReplaceAll(p.name, "github.com/ipfs/boxo/", "")))
			default:
				// the callee's contract cannot be read in this arithmetic: nothing is taken
				// from it (no postcondition assumed, its preconditions are its own callers'
				// business) and the call is treated like one without a contract
				c.note(fmt.Sprintf("contract of %s is written for arith %s, caller uses %s: call treated as having no contract (heap havocked, nothing assumed)", strings.ReplaceAll(p.name, "github.com/ipfs/boxo/", ""), fc.Arith, c.mode))
				preSt := st.clone()
				c.havocAll(st)
				for k, v := range preSt.heap {
					if strings.HasPrefix(k, "D|") {
						st.heap[k] = v
					}
				}
				return f.havocResults(ci, ci.Common().Signature().Results(), st)
			}
		}
	}
	pre := st.clone()
	env := f.calleeEnv(p, args, st, nil)
	short := p.name
	if p.fn != nil {
		short = shortFn(p.fn)
	}
	short = strings.ReplaceAll(short, "github.com/ipfs/boxo/", "")
	ord := 0
	if ci != nil {
		for _, k := range f.siteOrd[ci] {
			if k > ord {
				ord = k
			}
		}
	}
	for _, rq := range fc.Requires {
		t, err := env.evalBool(rq.E)
		name := fmt.Sprintf("%s#pre:%s:%s#%d", shortFn(f.fn), short, rq.Name, ord)
		if err != nil {
			c.oblige("error", name, reach, tFalse, "contract error: "+err.Error())
			continue
		}
		c.oblige("pre", name, reach, t, where)
		c.assume(tImp(reach, t), false)
	}
	// frame
	if fc.ModAll {
		c.havocAll(st)
		for k, v := range pre.heap {
			if strings.HasPrefix(k, "D|") {
				st.heap[k] = v
			}
		}
	} else if len(fc.Modifies) > 0 || fc.ModHeap {
		if fc.ModHeap {
			c.havocHeap(st)
		}
		ts, err := f.modTargets(p, env)
		if err != nil {
			c.oblige("error", fmt.Sprintf("%s#call:%s", shortFn(f.fn), short), reach, tFalse, "contract error: "+err.Error())
		}
		for _, t := range ts {
			cur := c.get(st, t.comp)
			switch {
			case t.obj != nil:
				c.set(st, t.comp, tStore(cur, *t.obj, c.fresh("mod", elemOfArr(cur.Sort))))
			case len(t.keys) > 0:
				c.set(st, t.comp, storeNested(c, cur, t.keys))
			default:
				c.havocComp(st, t.comp)
			}
		}
	}
	if fc.WritesArgs && ci != nil {
		cm := ci.Common()
		argVals := cm.Args
		if cm.IsInvoke() {
			argVals = append([]ssa.Value{cm.Value}, argVals...)
		}
		for _, a := range argVals {
			a2, known := unwrapIface(a)
			if !known {
				continue
			}
			if _, isVal := f.vals[a2]; !isVal {
				if _, isLoc := f.locs[a2]; !isLoc {
					if _, isC := a2.(*ssa.Const); isC {
						continue
					}
				}
			}
			f.havocDirect(a2, f.val(a2), st)
		}
	}
	// the callee may allocate
	na := c.fresh("alloc", SInt)
	c.assume(app(SBool, ">=", na, st.alloc), false)
	st.alloc = na
	results := p.sig.Results()
	var res []Term
	for i := 0; i < results.Len(); i++ {
		hint := "r"
		if p.fn != nil {
			hint = p.fn.Name()
		}
		var r Term
		rs := c.sortOf(results.At(i).Type())
		if fc.Pure {
			var ts []Term
			var sorts []string
			for _, a := range args {
				ts = append(ts, a.T)
				sorts = append(sorts, string(a.T.Sort))
			}
			name := fmt.Sprintf("uf_%s_r%d", sanitize(strings.ReplaceAll(p.name, "github.com/", "")), i)
			c.declare(name, fmt.Sprintf("(declare-fun %s (%s) %s)", name, strings.Join(sorts, " "), rs))
			r = app(rs, name, ts...)
			if len(ts) == 0 {
				r = T(rs, name)
			}
		} else {
			r = c.fresh(f.name(fmt.Sprintf("%s_r%d", hint, i)), rs)
		}
		c.assume(c.valueInv(r, results.At(i).Type(), st), false)
		res = append(res, r)
	}
	post := f.calleeEnv(p, args, st, pre)
	bindResultNames(post, fc, results, res)
	for _, en := range fc.Ensures {
		if strings.Contains(en.Src, "res(") || strings.Contains(en.Src, "called(") {
			// internal postcondition over the callee's own call results: not visible to callers
			continue
		}
		t, err := post.evalBool(en.E)
		if err != nil {
			c.oblige("error", fmt.Sprintf("%s#call:%s:%s", shortFn(f.fn), short, en.Name), reach, tFalse, "contract error: "+err.Error())
			continue
		}
		c.assume(tImp(reach, t), false)
	}
	return res
}

func storeNested(c *Ctx, arr Term, keys []Term) Term {
	if len(keys) == 1 {
		return tStore(arr, keys[0], c.fresh("mod", elemOfArr(arr.Sort)))
	}
	inner := app(elemOfArr(arr.Sort), "select", arr, keys[0])
	return tStore(arr, keys[0], storeNested(c, inner, keys[1:]))
}

// ---------------------------------------------------------------------------
// builtins and intrinsics

func (f *Frame) builtin(ci ssa.CallInstruction, name string, args []Val, st *State, reach Term) []Term {
	c := f.c
	cm := ci.Common()
	I := c.I()
	switch name {
	case "len", "cap":
		a := args[0]
		switch t := cm.Args[0].Type().Underlying().(type) {
		case *types.Slice:
			if name == "len" {
				return []Term{app(I, "sl_len", a.T)}
			}
			return []Term{app(I, "sl_cap", a.T)}
		case *types.Basic:
			return []Term{app(I, "str_len", a.T)}
		case *types.Map:
			_, _, ln := c.mapComps(t)
			r := c.define(f.name("maplen"), tIte(tEq(a.T, intLit(0)), c.intConst(0, I), tSelect(c.get(st, ln), a.T, I)))
			c.assume(c.ile(c.intConst(0, I), r), false)
			return []Term{r}
		case *types.Pointer:
			if at, ok := t.Elem().Underlying().(*types.Array); ok {
				return []Term{c.intConst(at.Len(), I)}
			}
		case *types.Array:
			return []Term{c.intConst(t.Len(), I)}
		}
		c.note("len/cap of channel or other (havoc)")
		r := c.fresh("len", I)
		c.assume(c.ile(c.intConst(0, I), r), false)
		return []Term{r}
	case "append":
		return []Term{f.appendOp(ci, args, st, reach)}
	case "copy":
		return []Term{f.copyOp(ci, args, st, reach)}
	case "delete":
		mt := cm.Args[0].Type().Underlying().(*types.Map)
		has, _, ln := c.mapComps(mt)
		m, k := args[0].T, args[1].T
		hcur, lcur := c.get(st, has), c.get(st, ln)
		hin := app(elemOfArr(hcur.Sort), "select", hcur, m)
		was := tAnd(tNot(tEq(m, intLit(0))), tSelect(hin, k, SBool))
		c.set(st, has, tIte(tEq(m, intLit(0)), hcur, tStore(hcur, m, tStore(hin, k, tFalse))))
		l0 := tSelect(lcur, m, I)
		c.set(st, ln, tIte(was, tStore(lcur, m, c.isub(l0, c.intConst(1, I))), lcur))
		return nil
	case "min", "max":
		r := args[0].T
		_, signed, _ := intInfo(cm.Args[0].Type())
		for _, a := range args[1:] {
			var lt Term
			switch {
			case c.mode == "int" || r.Sort == SInt:
				lt = app(SBool, "<", a.T, r)
			case signed:
				lt = app(SBool, "bvslt", a.T, r)
			default:
				lt = app(SBool, "bvult", a.T, r)
			}
			if name == "max" {
				lt = tNot(tOr(lt, tEq(a.T, r)))
				// a > r
			}
			r = tIte(lt, a.T, r)
		}
		return []Term{c.define(f.name(name), r)}
	case "close", "print", "println":
		return nil
	case "recover":
		return []Term{T(SIface, "nil_iface")}
	case "ssa:wrapnilchk":
		return []Term{args[0].T}
	case "clear":
		for i, a := range cm.Args {
			f.havocDirect(a, args[i].T, st)
		}
		c.note("clear(): contents havocked")
		return nil
	}
	c.note("builtin " + name + " (havoc)")
	return f.havocResults(ci, cm.Signature().Results(), st)
}

func (f *Frame) appendOp(ci ssa.CallInstruction, args []Val, st *State, reach Term) Term {
	c := f.c
	cm := ci.Common()
	I := c.I()
	s := args[0].T
	stp := cm.Args[0].Type().Underlying().(*types.Slice)
	comp := c.elemComp(stp.Elem())
	es := c.sortOf(stp.Elem())
	var tlen Term
	var telem func(j Term) (Term, bool)
	t := args[1]
	switch t.T.Sort {
	case SSlice:
		tlen = app(I, "sl_len", t.T)
		src := app(elemOfArr(c.compSort[comp]), "select", c.get(st, comp), app(SInt, "sl_arr", t.T))
		telem = func(j Term) (Term, bool) { return c.slElem(src, app(I, "sl_off", t.T), j), true }
	case SStr:
		tlen = app(I, "str_len", t.T)
		telem = func(j Term) (Term, bool) { return c.strAt(t.T, j), true }
	default:
		tlen = c.intConst(0, I)
		telem = func(j Term) (Term, bool) { return Term{}, false }
	}
	slen, scap, soff, sarr := app(I, "sl_len", s), app(I, "sl_cap", s), app(I, "sl_off", s), app(SInt, "sl_arr", s)
	nlen := c.define(f.name("app_len"), c.iadd(slen, tlen))
	if c.mode == "int" {
		c.assume(tImp(reach, c.typeRange(nlen, types.Typ[types.Int])), false)
	}
	inplace := c.define(f.name("app_inplace"), c.ile(nlen, scap))
	fresh := c.define(f.name("app_arr"), app(SInt, "+", st.alloc, intLit(1)))
	st.alloc = fresh
	ncap := c.fresh(f.name("app_cap"), I)
	c.assume(tAnd(c.ile(nlen, ncap), c.typeRange(ncap, types.Typ[types.Int])), false)
	rarr := tIte(inplace, sarr, fresh)
	roff := c.define(f.name("app_off"), tIte(inplace, soff, c.intConst(0, I)))
	rcap := tIte(inplace, scap, ncap)
	r := c.define(f.name("app"), app(SSlice, "mk_Slice", rarr, roff, nlen, rcap))
	cur := c.get(st, comp)
	old := app(elemOfArr(cur.Sort), "select", cur, sarr)
	narr := c.fresh(f.name("app_elems"), elemOfArr(cur.Sort))
	c.nfresh++
	j := T(I, fmt.Sprintf("j!q%d", c.nfresh))
	z := c.intConst(0, I)
	// old elements preserved (trigger: sl_elem(narr, roff, j))
	c.assume(T(SBool, fmt.Sprintf("(forall ((%s %s)) %s)", j.S, I,
		tImp(tAnd(c.ile(z, j), c.ilt(j, slen)), tEq(c.slElem(narr, roff, j), c.slElem(old, soff, j))).S)), false)
	if e0, ok := telem(c.isub(j, slen)); ok {
		// appended elements: index k in [slen, nlen) holds t[k - slen]
		c.assume(T(SBool, fmt.Sprintf("(forall ((%s %s)) %s)", j.S, I,
			tImp(tAnd(c.ile(slen, j), c.ilt(j, nlen)), tEq(c.slElem(narr, roff, j), e0)).S)), false)
		// explicit instance for the common one-element append
		e1, _ := telem(z)
		c.assume(tImp(c.ilt(z, tlen), tEq(c.slElem(narr, roff, slen), e1)), false)
	}
	// in place: everything outside the appended window is unchanged (absolute positions)
	c.assume(tImp(inplace, T(SBool, fmt.Sprintf("(forall ((%s %s)) %s)", j.S, I,
		tImp(tOr(c.ilt(j, c.iadd(soff, slen)), c.ile(c.iadd(soff, nlen), j)), tEq(tSelect(narr, j, es), tSelect(old, j, es))).S))), false)
	c.set(st, comp, tStore(cur, rarr, narr))
	return r
}

func (f *Frame) copyOp(ci ssa.CallInstruction, args []Val, st *State, reach Term) Term {
	c := f.c
	cm := ci.Common()
	I := c.I()
	d := args[0].T
	dt := cm.Args[0].Type().Underlying().(*types.Slice)
	es := c.sortOf(dt.Elem())
	comp := c.elemComp(dt.Elem())
	var slen Term
	var selem func(j Term) Term
	cur := c.get(st, comp)
	switch args[1].T.Sort {
	case SSlice:
		s := args[1].T
		slen = app(I, "sl_len", s)
		src := app(elemOfArr(cur.Sort), "select", cur, app(SInt, "sl_arr", s))
		selem = func(j Term) Term { return c.slElem(src, app(I, "sl_off", s), j) }
	default:
		s := args[1].T
		slen = app(I, "str_len", s)
		selem = func(j Term) Term { return c.strAt(s, j) }
	}
	dlen, doff, darr := app(I, "sl_len", d), app(I, "sl_off", d), app(SInt, "sl_arr", d)
	n := c.define(f.name("copy_n"), tIte(c.ilt(slen, dlen), slen, dlen))
	old := app(elemOfArr(cur.Sort), "select", cur, darr)
	narr := c.fresh(f.name("copy_elems"), elemOfArr(cur.Sort))
	c.nfresh++
	j := T(I, fmt.Sprintf("j!q%d", c.nfresh))
	z := c.intConst(0, I)
	c.assume(T(SBool, fmt.Sprintf("(forall ((%s %s)) %s)", j.S, I,
		tImp(tAnd(c.ile(z, j), c.ilt(j, n)), tEq(c.slElem(narr, doff, j), selem(j))).S)), false)
	c.assume(T(SBool, fmt.Sprintf("(forall ((%s %s)) %s)", j.S, I,
		tImp(tOr(c.ilt(j, doff), c.ile(c.iadd(doff, n), j)), tEq(tSelect(narr, j, es), tSelect(old, j, es))).S)), false)
	c.set(st, comp, tStore(cur, darr, narr))
	return n
}

type intrinsic func(f *Frame, args []Val, st *State, reach Term, results *types.Tuple) []Term

var intrinsics map[string]intrinsic

func init() {
	intrinsics = map[string]intrinsic{
		"math/bits.Len64": bitsLen(64),
		"math/bits.Len32": bitsLen(32),
		"math/bits.Len":   bitsLen(64),
		"math/bits.Len16": bitsLen(16),
		"math/bits.Len8":  bitsLen(8),
		"errors.New":      newError,
		"fmt.Errorf":      fmtErrorf,
		"errors.Is":       errorsIs,
	}
}

func bitsLen(w int) intrinsic {
	return func(f *Frame, args []Val, st *State, reach Term, results *types.Tuple) []Term {
		c := f.c
		x := args[0].T
		rs := c.sortOf(results.At(0).Type())
		r := c.intConst(int64(w), rs)
		for k := w - 1; k >= 0; k-- {
			// x < 2^k  => Len <= k
			var lt Term
			if c.mode == "bv" {
				lt = app(SBool, "bvult", x, c.uintConst(uint64(1)<<uint(k), x.Sort))
			} else {
				lt = app(SBool, "<", x, T(SInt, fmt.Sprintf("%d", uint64(1)<<uint(k))))
			}
			r = tIte(lt, c.intConst(int64(k), rs), r)
		}
		return []Term{c.define(f.name("bitslen"), r)}
	}
}

func newError(f *Frame, args []Val, st *State, reach Term, results *types.Tuple) []Term {
	c := f.c
	e := c.fresh(f.name("newerr"), SIface)
	c.assume(tNot(tEq(e, T(SIface, "nil_iface"))), false)
	for _, o := range sentinelSeen[c] {
		c.assume(tNot(tEq(e, o)), false)
	}
	return []Term{e}
}

func fmtErrorf(f *Frame, args []Val, st *State, reach Term, results *types.Tuple) []Term {
	c := f.c
	e := c.fresh(f.name("errorf"), SIface)
	c.assume(tNot(tEq(e, T(SIface, "nil_iface"))), false)
	for _, o := range sentinelSeen[c] {
		c.assume(tNot(tEq(e, o)), false)
	}
	return []Term{e}
}

func errorsIs(f *Frame, args []Val, st *State, reach Term, results *types.Tuple) []Term {
	c := f.c
	c.declare("errors_is", "(declare-fun errors_is (Iface Iface) Bool)")
	r := app(SBool, "errors_is", args[0].T, args[1].T)
	nilI := T(SIface, "nil_iface")
	c.assume(tImp(tEq(args[0].T, nilI), tEq(r, tEq(args[1].T, nilI))), false)
	c.assume(tImp(tAnd(tEq(args[0].T, args[1].T)), r), false)
	return []Term{r}
}
