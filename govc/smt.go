package main

import (
	"bytes"
	"context"
	"fmt"
	"os"
	"os/exec"
	"path/filepath"
	"sort"
	"strings"
	"sync"
	"time"
)

// Sort is the SMT-LIB text of a sort.
type Sort string

const (
	SBool  Sort = "Bool"
	SInt   Sort = "Int"
	SStr   Sort = "Str"
	SIface Sort = "Iface"
	SSlice Sort = "Slice"
)

func bvSort(w int) Sort { return Sort(fmt.Sprintf("(_ BitVec %d)", w)) }
func arrSort(k, v Sort) Sort {
	return Sort(fmt.Sprintf("(Array %s %s)", k, v))
}
func (s Sort) isBV() (int, bool) {
	var w int
	if n, _ := fmt.Sscanf(string(s), "(_ BitVec %d)", &w); n == 1 {
		return w, true
	}
	return 0, false
}

// Term is an SMT term with its sort.
type Term struct {
	S    string
	Sort Sort
}

func T(sort Sort, s string) Term { return Term{S: s, Sort: sort} }
func app(sort Sort, op string, args ...Term) Term {
	var b strings.Builder
	b.WriteString("(")
	b.WriteString(op)
	for _, a := range args {
		b.WriteString(" ")
		b.WriteString(a.S)
	}
	b.WriteString(")")
	return Term{S: b.String(), Sort: sort}
}

var (
	tTrue  = T(SBool, "true")
	tFalse = T(SBool, "false")
)

func tNot(a Term) Term {
	if a.S == "true" {
		return tFalse
	}
	if a.S == "false" {
		return tTrue
	}
	return app(SBool, "not", a)
}
func tAnd(as ...Term) Term {
	var xs []Term
	for _, a := range as {
		if a.S == "true" {
			continue
		}
		if a.S == "false" {
			return tFalse
		}
		xs = append(xs, a)
	}
	if len(xs) == 0 {
		return tTrue
	}
	if len(xs) == 1 {
		return xs[0]
	}
	return app(SBool, "and", xs...)
}
func tOr(as ...Term) Term {
	var xs []Term
	for _, a := range as {
		if a.S == "false" {
			continue
		}
		if a.S == "true" {
			return tTrue
		}
		xs = append(xs, a)
	}
	if len(xs) == 0 {
		return tFalse
	}
	if len(xs) == 1 {
		return xs[0]
	}
	return app(SBool, "or", xs...)
}
func tImp(a, b Term) Term {
	if a.S == "true" {
		return b
	}
	if a.S == "false" || b.S == "true" {
		return tTrue
	}
	return app(SBool, "=>", a, b)
}
func tEq(a, b Term) Term {
	if a.S == b.S {
		return tTrue
	}
	return app(SBool, "=", a, b)
}
func tIte(c, a, b Term) Term {
	if c.S == "true" {
		return a
	}
	if c.S == "false" {
		return b
	}
	if a.S == b.S {
		return a
	}
	return app(a.Sort, "ite", c, a, b)
}
func tSelect(arr, idx Term, elem Sort) Term { return app(elem, "select", arr, idx) }
func tStore(arr, idx, v Term) Term          { return app(arr.Sort, "store", arr, idx, v) }
func intLit(n int64) Term {
	if n < 0 {
		return T(SInt, fmt.Sprintf("(- %d)", -n))
	}
	return T(SInt, fmt.Sprintf("%d", n))
}

// ---------------------------------------------------------------------------
// Solver racing

type SolverResult struct {
	Status  string // unsat | sat | unknown | timeout | error
	Backend string
	Ms      int64
	Model   string
	Raw     string
}

type solverSpec struct {
	name string
	argv func(file string, timeoutS int) []string
	pre  func(q string) string // query preprocessing
}

var solvers = []solverSpec{
	{"z3-5.1.0", func(f string, t int) []string { return []string{"z3-new", fmt.Sprintf("-T:%d", t), f} }, nil},
	{"z3-4.8.12", func(f string, t int) []string { return []string{"z3", fmt.Sprintf("-T:%d", t), f} }, nil},
	{"cvc5-1.0", func(f string, t int) []string {
		return []string{"cvc5", "--produce-models", fmt.Sprintf("--tlimit=%d", t*1000), f}
	}, nil},
}

var workDir string
var solverSem = make(chan struct{}, 16)

func initWork() {
	if workDir != "" {
		return
	}
	base := os.Getenv("GOVC_WORK")
	if base == "" {
		base = "/verif/work"
	}
	os.MkdirAll(base, 0o755)
	d, err := os.MkdirTemp(base, "q-")
	if err != nil {
		panic(err)
	}
	workDir = d
}

func cleanupWork() {
	if workDir != "" {
		os.RemoveAll(workDir)
	}
}

var qCounter int
var qMu sync.Mutex

// runQuery races the solvers on one query; first definite answer wins.
// If all is set, every solver runs to completion and disagreement is reported
// through Status "disagree".
func runQuery(name, query string, timeoutS int, all bool, onlySolvers []string) SolverResult {
	initWork()
	qMu.Lock()
	qCounter++
	id := qCounter
	qMu.Unlock()
	safe := strings.Map(func(r rune) rune {
		if r >= 'a' && r <= 'z' || r >= 'A' && r <= 'Z' || r >= '0' && r <= '9' || r == '_' || r == '-' {
			return r
		}
		return '_'
	}, name)
	if len(safe) > 80 {
		safe = safe[:80]
	}
	file := filepath.Join(workDir, fmt.Sprintf("%04d_%s.smt2", id, safe))
	os.WriteFile(file, []byte(query), 0o644)

	ctx, cancel := context.WithCancel(context.Background())
	defer cancel()
	type res struct {
		r SolverResult
	}
	var use []solverSpec
	for _, s := range solvers {
		if len(onlySolvers) > 0 {
			ok := false
			for _, o := range onlySolvers {
				if strings.HasPrefix(s.name, o) {
					ok = true
				}
			}
			if !ok {
				continue
			}
		}
		use = append(use, s)
	}
	ch := make(chan SolverResult, len(use))
	for _, s := range use {
		s := s
		go func() {
			solverSem <- struct{}{}
			defer func() { <-solverSem }()
			if ctx.Err() != nil {
				ch <- SolverResult{Status: "cancelled", Backend: s.name}
				return
			}
			t0 := time.Now()
			cmd := exec.CommandContext(ctx, s.argv(file, timeoutS)[0], s.argv(file, timeoutS)[1:]...)
			var out bytes.Buffer
			cmd.Stdout = &out
			cmd.Stderr = &out
			cmd.Run()
			ms := time.Since(t0).Milliseconds()
			txt := out.String()
			first := strings.TrimSpace(strings.SplitN(txt, "\n", 2)[0])
			r := SolverResult{Backend: s.name, Ms: ms, Raw: txt}
			switch {
			case first == "unsat":
				r.Status = "unsat"
			case first == "sat":
				r.Status = "sat"
				if i := strings.Index(txt, "\n"); i >= 0 {
					r.Model = txt[i+1:]
				}
			case first == "unknown":
				r.Status = "unknown"
			case strings.Contains(first, "timeout") || ctx.Err() != nil:
				r.Status = "timeout"
			default:
				r.Status = "error"
			}
			ch <- r
		}()
	}
	var got []SolverResult
	var best *SolverResult
	for range use {
		r := <-ch
		got = append(got, r)
		if r.Status == "unsat" || r.Status == "sat" {
			if best == nil {
				rr := r
				best = &rr
				if !all {
					cancel()
				}
			} else if all && best.Status != r.Status {
				return SolverResult{Status: "disagree", Backend: best.Backend + "/" + r.Backend, Raw: best.Raw + "\n---\n" + r.Raw}
			}
		}
	}
	if best != nil {
		if all {
			var bs []string
			for _, g := range got {
				bs = append(bs, g.Backend+":"+g.Status)
			}
			sort.Strings(bs)
			best.Raw = strings.Join(bs, " ") + "\n" + best.Raw
		}
		return *best
	}
	// no definite answer
	st := "unknown"
	raw := ""
	allTimeout := true
	for _, g := range got {
		if g.Status != "timeout" {
			allTimeout = false
		}
		raw += g.Backend + ": " + g.Status + "\n" + firstLines(g.Raw, 5) + "\n"
	}
	if allTimeout {
		st = "timeout"
	}
	for _, g := range got {
		if g.Status == "error" && st != "timeout" {
			st = "unknown"
		}
	}
	return SolverResult{Status: st, Backend: "none", Raw: raw}
}

func firstLines(s string, n int) string {
	ls := strings.Split(s, "\n")
	if len(ls) > n {
		ls = ls[:n]
	}
	return strings.Join(ls, "\n")
}
