package main

import (
	"bufio"
	"bytes"
	"encoding/json"
	"flag"
	"fmt"
	"os"
	"os/exec"
	"path/filepath"
	"regexp"
	"sort"
	"strconv"
	"strings"
	"time"
)

type BoundedSpec struct {
	Name         string `json:"name"`
	Pkg          string `json:"pkg"`  // package dir relative to /repo
	File         string `json:"file"` // test file relative to /verif
	Run          string `json:"run"`  // -run regexp
	Scope        string `json:"scope"`
	ThoroughOnly bool   `json:"thorough_only"`
	TimeoutS     int    `json:"timeout_s"`
	Extra        []string `json:"extra_files"` // further files injected next to the test
	TimeoutFails bool   `json:"timeout_is_failure"` // the property is about termination: running out of time is a failing case
}

type ReplaySpec struct {
	Match string `json:"match"` // substring of the obligation name
	Pkg   string `json:"pkg"`
	File  string `json:"file"`
	Run   string `json:"run"`
}

type PropConfig struct {
	ID         string        `json:"id"`
	Pkgs       []string      `json:"pkgs"`
	LemmaArith string        `json:"lemma_arith"`
	Unverified []string      `json:"unverified_parts"`
	Assume     []string      `json:"assumptions"`
	Bounded    []BoundedSpec `json:"bounded"`
	Replay     []ReplaySpec  `json:"replay"`
	MinObl     int           `json:"min_obligations"`
}

type knownFinding struct {
	prop, match, sig, desc string
	re                     *regexp.Regexp
}

func verifDir() string {
	if d := os.Getenv("GOVC_VERIF"); d != "" {
		return d
	}
	return "/verif"
}

func loadKnown() ([]knownFinding, error) {
	var out []knownFinding
	fh, err := os.Open(filepath.Join(verifDir(), "known_findings.txt"))
	if err != nil {
		if os.IsNotExist(err) {
			return nil, nil
		}
		return nil, err
	}
	defer fh.Close()
	sc := bufio.NewScanner(fh)
	for sc.Scan() {
		l := strings.TrimSpace(sc.Text())
		if !strings.HasPrefix(l, "known:") {
			continue
		}
		// known: property=C10 obligation=<substring> signature=<regexp|-> :: description
		body := strings.TrimSpace(l[6:])
		desc := ""
		if i := strings.Index(body, "::"); i >= 0 {
			desc = strings.TrimSpace(body[i+2:])
			body = strings.TrimSpace(body[:i])
		}
		k := knownFinding{desc: desc}
		for _, f := range strings.Fields(body) {
			switch {
			case strings.HasPrefix(f, "property="):
				k.prop = f[9:]
			case strings.HasPrefix(f, "obligation="):
				k.match = f[11:]
			case strings.HasPrefix(f, "signature="):
				k.sig = f[10:]
			}
		}
		if k.sig != "" && k.sig != "-" {
			re, err := regexp.Compile(k.sig)
			if err != nil {
				return nil, fmt.Errorf("known_findings: bad signature %q: %v", k.sig, err)
			}
			k.re = re
		}
		out = append(out, k)
	}
	return out, nil
}

// runOverlayTest injects a test file into a package of /repo through -overlay
// (nothing is written into /repo) and runs it.
func runOverlayTest(pkgRel, file string, extra []string, run string, timeoutS int, env []string, tags string) (bool, string, error) {
	initWork()
	abs := file
	if !filepath.IsAbs(abs) {
		abs = filepath.Join(verifDir(), file)
	}
	if _, err := os.Stat(abs); err != nil {
		return false, "", err
	}
	repl := map[string]string{}
	base := filepath.Base(abs)
	if !strings.HasSuffix(base, "_test.go") {
		base = strings.TrimSuffix(base, ".go") + "_test.go"
	}
	repl[filepath.Join(repoDir(), pkgRel, "zz_verif_"+base)] = abs
	for _, e := range extra {
		ea := e
		if !filepath.IsAbs(ea) {
			ea = filepath.Join(verifDir(), e)
		}
		eb := filepath.Base(ea)
		repl[filepath.Join(repoDir(), pkgRel, "zz_verif_"+eb)] = ea
	}
	ov, _ := json.Marshal(map[string]any{"Replace": repl})
	ovFile := filepath.Join(workDir, fmt.Sprintf("ov_%d.json", time.Now().UnixNano()))
	os.WriteFile(ovFile, ov, 0o644)
	if timeoutS == 0 {
		timeoutS = 120
	}
	args := []string{"test", "-v", "-overlay", ovFile, "-vet=off", "-count=1", "-timeout", fmt.Sprintf("%ds", timeoutS), "-run", run}
	if tags != "" {
		args = append(args, "-tags", tags)
	}
	args = append(args, "./"+pkgRel)
	cmd := exec.Command("go", args...)
	cmd.Dir = repoDir()
	cmd.Env = append(os.Environ(), "GOFLAGS=-mod=mod", "GOPROXY=off")
	cmd.Env = append(cmd.Env, env...)
	var out bytes.Buffer
	cmd.Stdout = &out
	cmd.Stderr = &out
	err := cmd.Run()
	txt := out.String()
	if err != nil {
		if strings.Contains(txt, "[build failed]") || strings.Contains(txt, "[setup failed]") {
			return false, txt, fmt.Errorf("test harness does not build")
		}
		return false, txt, nil
	}
	if strings.Contains(txt, "no tests to run") {
		return false, txt, fmt.Errorf("test %s not found", run)
	}
	return true, txt, nil
}

type evidence struct {
	PropertyID string         `json:"property_id"`
	Tier       string         `json:"tier"`
	Seed       int            `json:"seed"`
	Level      string         `json:"level"`
	Coverage   map[string]any `json:"coverage"`
	Assume     []string       `json:"assumptions"`
	WallS      float64        `json:"wall_s"`
	Violations int            `json:"violations"`
}

func cmdCheck(args []string) int {
	fs := flag.NewFlagSet("check", flag.ExitOnError)
	tier := fs.String("tier", "quick", "quick|thorough")
	replay := fs.String("replay", "", "replay file to re-run")
	if len(args) == 0 {
		fmt.Fprintln(os.Stderr, "usage: govc check <id> [--tier quick|thorough]")
		return 2
	}
	id := args[0]
	fs.Parse(args[1:])
	if t := os.Getenv("VERIF_TIER"); t != "" && *tier == "quick" {
		*tier = t
	}
	seed, _ := strconv.Atoi(os.Getenv("VERIF_SEED"))
	t0 := time.Now()
	var cfg PropConfig
	b, err := os.ReadFile(filepath.Join(verifDir(), "props", id+".json"))
	if err != nil {
		fmt.Fprintln(os.Stderr, "config:", err)
		return 2
	}
	if err := json.Unmarshal(b, &cfg); err != nil {
		fmt.Fprintln(os.Stderr, "config:", err)
		return 2
	}
	if *replay != "" {
		return cmdReplay(&cfg, *replay)
	}
	known, err := loadKnown()
	if err != nil {
		fmt.Fprintln(os.Stderr, err)
		return 2
	}
	if cfg.LemmaArith != "" {
		lemmaMode = cfg.LemmaArith
	}
	evDir := filepath.Join(verifDir(), "evidence")
	if d := os.Getenv("GOVC_EVIDENCE_DIR"); d != "" {
		// runs against seeded/mutated trees must not overwrite the evidence of /repo
		evDir = d
	}
	evFile := filepath.Join(evDir, id+".json")
	os.MkdirAll(filepath.Dir(evFile), 0o755)
	replayDir := filepath.Join(evDir, "replay", id)
	os.RemoveAll(replayDir)

	l, err := load(splitPkgs(strings.Join(cfg.Pkgs, ",")))
	if err != nil {
		fmt.Fprintf(os.Stderr, "BROKEN property=%s: cannot load /repo: %v\n", id, err)
		return 2
	}
	timeout := 30
	all := false
	if *tier == "thorough" {
		timeout = 90
		all = true
	}
	reps := verifyProp(l, id, "", timeout, all, "")

	violations := 0
	broken := 0
	var undecided []string
	knownHits := 0
	total, discharged, covers := 0, 0, 0
	var perObl []map[string]any
	var funcs []string
	var samples []any
	trusted := map[string]bool{}
	backends := map[string]int{}
	var solverMs int64
	abstractions := map[string]bool{}
	for _, t := range l.db.trusted {
		trusted[t] = true
	}
	seenViolation := map[string]bool{}
	for _, r := range reps {
		if r.Key != "lemmas" {
			funcs = append(funcs, strings.ReplaceAll(r.Func, "github.com/ipfs/boxo/", ""))
		}
		if r.Error != "" {
			fmt.Printf("BROKEN property=%s function=%s: %s\n", id, r.Func, r.Error)
			broken++
			continue
		}
		for _, n := range r.Notes {
			abstractions[n] = true
		}
		for _, a := range r.Assumed {
			trusted[a] = true
		}
		for _, u := range r.UFs {
			trusted["uninterpreted (deterministic, value-only) callee: "+u] = true
		}
		for _, u := range r.Inlined {
			abstractions["inlined from source: "+strings.ReplaceAll(u, "github.com/ipfs/boxo/", "")] = true
		}
		for i, o := range r.Obligations {
			solverMs += o.Ms
			entry := map[string]any{"name": o.Name, "kind": o.Kind, "status": o.Status, "backend": o.Backend, "ms": o.Ms}
			switch o.Status {
			case "covered", "cover-unknown":
				covers++
				perObl = append(perObl, entry)
				continue
			case "vacuous":
				if funcHasFailedObligation(r) {
					// an obligation that failed earlier in this function is assumed after
					// it is asserted; unreachability of what follows is its consequence
					entry["status"] = "unreachable-after-failed-obligation"
					perObl = append(perObl, entry)
					continue
				}
				fmt.Printf("BROKEN property=%s obligation=%s: %s\n", id, o.Name, o.Detail)
				broken++
				perObl = append(perObl, entry)
				continue
			case "error":
				// a contract clause that no longer binds to the code (renamed local,
				// removed call): the obligation is undecided, not violated
				fmt.Printf("UNDECIDED property=%s obligation=%s: %s\n", id, o.Name, o.Detail)
				undecided = append(undecided, o.Name)
				entry["status"] = "undecided"
				perObl = append(perObl, entry)
				continue
			}
			if o.Status == "discharged" {
				total++
				discharged++
				backends[o.Backend]++
				if len(samples) < 4 {
					q := buildQuery(r.ctx, r.obls[i])
					samples = append(samples, map[string]any{"obligation": o.Name, "backend": o.Backend, "ms": o.Ms, "smt_tail": tailLines(q, 6)})
				}
				perObl = append(perObl, entry)
				continue
			}
			// failed
			if funcHasContractError(r) {
				// the contract no longer binds to the code of this function (e.g. a
				// local named in a loop invariant was renamed): its undischarged
				// obligations are inconclusive, not violations
				fmt.Printf("UNDECIDED property=%s obligation=%s: the contract of %s does not evaluate against the current code\n", id, o.Name, r.Func)
				undecided = append(undecided, o.Name)
				entry["status"] = "undecided"
				perObl = append(perObl, entry)
				continue
			}
			if o.Solver != "sat" && strings.Count(o.Detail, "(error ") >= 3 {
				// every back end rejected the query: the generator produced an ill-formed
				// condition (engine malfunction), which says nothing about the property
				fmt.Printf("BROKEN property=%s obligation=%s: all solvers rejected the query\n%s\n", id, o.Name, lastBytes(o.Detail, 600))
				broken++
				entry["status"] = "broken-query"
				perObl = append(perObl, entry)
				continue
			}
			if kf := matchKnown(known, id, o.Name, ""); kf != nil && kf.re == nil {
				fmt.Printf("KNOWN-FINDING: property=%s %s (obligation %s)\n", id, kf.desc, o.Name)
				entry["status"] = "known-finding"
				knownHits++
				perObl = append(perObl, entry)
				continue
			}
			total++
			rp := findReplay(&cfg, l.db, r, o.Name)
			rf := filepath.Join(replayDir, sanitize(o.Name)+".json")
			os.MkdirAll(replayDir, 0o755)
			rec := map[string]any{"property": id, "obligation": o.Name, "kind": o.Kind, "where": o.Where, "solver_status": o.Solver,
				"backend": o.Backend, "model": o.Model, "solver_output": o.Detail, "function": r.Func}
			suffix := " no-failing-input-found"
			if rp != nil {
				rec["replay_test"] = rp
				pass, out, err := runOverlayTest(rp.Pkg, rp.File, nil, "^"+rp.Run+"$", 180, []string{"GOVC_MODEL=" + o.Model}, "")
				rec["replay_output"] = lastBytes(out, 6000)
				if err != nil {
					rec["replay_error"] = err.Error()
				} else if !pass {
					rec["replayed"] = "counterexample reproduced on the real code"
					suffix = ""
					if kf := matchKnown(known, id, o.Name, out); kf != nil {
						fmt.Printf("KNOWN-FINDING: property=%s %s (obligation %s)\n", id, kf.desc, o.Name)
						entry["status"] = "known-finding"
						knownHits++
						total--
						perObl = append(perObl, entry)
						continue
					}
				} else {
					rec["replayed"] = "replay test passed: no failing input found"
				}
			}
			jb, _ := json.MarshalIndent(rec, "", " ")
			os.WriteFile(rf, jb, 0o644)
			violations++
			entry["status"] = "failed"
			perObl = append(perObl, entry)
			if !seenViolation[rf] {
				seenViolation[rf] = true
				fmt.Printf("VIOLATION property=%s replay=%s obligation=%s%s\n", id, rf, o.Name, suffix)
			}
		}
	}
	// bounded stand-ins
	var boundedOut []map[string]any
	bEvals, bDistinct := 0, 0
	for _, bs := range cfg.Bounded {
		if bs.ThoroughOnly && *tier != "thorough" {
			continue
		}
		bt0 := time.Now()
		env := []string{"VERIF_TIER=" + *tier, fmt.Sprintf("VERIF_SEED=%d", seed)}
		pass, out, err := runOverlayTest(bs.Pkg, bs.File, bs.Extra, bs.Run, bs.TimeoutS, env, "")
		be := map[string]any{"name": bs.Name, "scope": bs.Scope, "label": "bounded (not counted as proved)", "wall_s": time.Since(bt0).Seconds()}
		stats := parseStats(out)
		for k, v := range stats {
			be[k] = v
		}
		if n, ok := stats["evaluations"].(float64); ok {
			bEvals += int(n)
		}
		if n, ok := stats["distinct"].(float64); ok {
			bDistinct += int(n)
		}
		if err != nil {
			fmt.Printf("BROKEN property=%s bounded=%s: %v\n%s\n", id, bs.Name, err, lastBytes(out, 3000))
			broken++
			be["status"] = "broken"
		} else if pass {
			be["status"] = "passed"
		} else {
			// each FAIL line may be a known finding
			fails := failLines(out)
			unknownFail := false
			for _, fl := range fails {
				if kf := matchKnown(known, id, "bounded:"+bs.Name, fl); kf != nil {
					fmt.Printf("KNOWN-FINDING: property=%s %s (bounded %s)\n", id, kf.desc, bs.Name)
					knownHits++
				} else {
					unknownFail = true
				}
			}
			// A stand-in that ran out of its time limit without reporting a failing case
			// explored less than its stated scope: that is an incomplete exploration, not
			// a failing input (the property held on everything explored).
			timedOut := len(fails) == 0 && strings.Contains(out, "panic: test timed out after") && !bs.TimeoutFails
			if len(fails) == 0 && !timedOut {
				unknownFail = true
			}
			if timedOut {
				fmt.Printf("BOUNDED-INCOMPLETE property=%s bounded=%s: time limit of %ds reached before the stated scope was explored; no failing case seen\n", id, bs.Name, bs.TimeoutS)
				be["status"] = "incomplete (time limit reached, no failing case seen)"
			} else if unknownFail {
				os.MkdirAll(replayDir, 0o755)
				rf := filepath.Join(replayDir, "bounded_"+sanitize(bs.Name)+".json")
				jb, _ := json.MarshalIndent(map[string]any{"property": id, "bounded": bs, "output": lastBytes(out, 12000),
					"replay": fmt.Sprintf("govc check %s --replay %s", id, rf)}, "", " ")
				os.WriteFile(rf, jb, 0o644)
				fmt.Printf("VIOLATION property=%s replay=%s bounded=%s\n", id, rf, bs.Name)
				violations++
				be["status"] = "failed"
			} else {
				be["status"] = "known-findings-only"
			}
		}
		boundedOut = append(boundedOut, be)
	}
	// Obligations the verifier could not decide because a contract clause does not
	// bind to the current code are decided by the property's executable oracles
	// (replay tests against the real code; the bounded stand-ins above have run
	// already): a failing oracle is a violation with a concrete failing input,
	// otherwise the obligations stay undecided and are reported as such.
	var fallbackOut []map[string]any
	// (the thorough tier runs them in any case: a change can move code out from under the
	// obligation a replay test is attached to without making anything undecided)
	if (len(undecided) > 0 || *tier == "thorough") && violations == 0 {
		ran := map[string]bool{}
		for _, bs := range cfg.Bounded {
			ran[bs.File+" "+bs.Run] = true
		}
		for i := range cfg.Replay {
			rp := &cfg.Replay[i]
			if ran[rp.File+" "+rp.Run] {
				continue
			}
			ran[rp.File+" "+rp.Run] = true
			pass, out, err := runOverlayTest(rp.Pkg, rp.File, nil, "^"+rp.Run+"$", 300, nil, "")
			fe := map[string]any{"oracle": rp.File + " " + rp.Run}
			switch {
			case err != nil:
				fe["status"] = "could not run: " + err.Error()
			case pass:
				fe["status"] = "passed"
			default:
				if kf := matchKnown(known, id, rp.Match, out); kf != nil {
					fe["status"] = "known-finding"
					break
				}
				fe["status"] = "failed"
				os.MkdirAll(replayDir, 0o755)
				rf := filepath.Join(replayDir, "fallback_"+sanitize(rp.Run)+".json")
				jb, _ := json.MarshalIndent(map[string]any{"property": id, "undecided_obligations": undecided,
					"decided_by": "executable oracle run because the obligations above could not be evaluated against the current code",
					"replay_test": rp, "replay_output": lastBytes(out, 8000), "replayed": "counterexample reproduced on the real code"}, "", " ")
				os.WriteFile(rf, jb, 0o644)
				what := "replay of " + rp.Match
				if len(undecided) > 0 {
					what = undecided[0] + " (undecided; decided by oracle " + rp.Run + ")"
				}
				fmt.Printf("VIOLATION property=%s replay=%s obligation=%s\n", id, rf, what)
				violations++
			}
			fallbackOut = append(fallbackOut, fe)
		}
	}
	if total == 0 && broken == 0 {
		fmt.Printf("BROKEN property=%s: no obligations generated\n", id)
		broken++
	}
	if cfg.MinObl > 0 && total+knownHits < cfg.MinObl && broken == 0 {
		fmt.Printf("BROKEN property=%s: %d obligations generated, at least %d expected (contract file or tags lost?)\n", id, total, cfg.MinObl)
		broken++
	}
	var tb []string
	for k := range trusted {
		tb = append(tb, k)
	}
	tb = append(tb, "govc VC generator (SSA -> SMT), go/ssa + go/types front end, z3 4.8.12 / z3 5.1.0 / cvc5 1.0 solvers")
	sort.Strings(tb)
	var abs []string
	for k := range abstractions {
		abs = append(abs, k)
	}
	sort.Strings(abs)
	sort.Strings(funcs)
	if len(samples) == 0 {
		samples = append(samples, "no discharged obligation in this run")
	}
	cov := map[string]any{
		"obligations": total, "discharged": discharged,
		"checker_cmd":              fmt.Sprintf("bin/govc check %s --tier %s", id, *tier),
		"trusted_base":             tb,
		"samples":                  samples,
		"functions_under_contract": funcs,
		"per_obligation":           perObl,
		"vacuity_checks":           covers,
		"backends":                 backends,
		"solver_ms_total":          solverMs,
		"dropped_or_abstracted":    abs,
		"unverified_parts":         cfg.Unverified,
		"known_finding_hits":       knownHits,
		"contract_files":           relFiles(l.db.files),
		"arith":                    arithOf(reps),
	}
	if len(undecided) > 0 {
		cov["undecided_obligations"] = undecided
		cov["undecided_fallback_oracles"] = fallbackOut
		cov["explanation"] = "some contract clauses do not bind to the current code; their obligations are not counted in obligations/discharged and were handed to the executable oracles listed under undecided_fallback_oracles"
	}
	if len(boundedOut) > 0 {
		cov["bounded"] = boundedOut
		cov["bounded_evaluations"] = bEvals
		cov["bounded_distinct"] = bDistinct
	}
	ev := evidence{PropertyID: id, Tier: *tier, Seed: seed, Level: "proof", Coverage: cov, Assume: append(cfg.Assume, tb...),
		WallS: time.Since(t0).Seconds(), Violations: violations}
	jb, _ := json.MarshalIndent(ev, "", " ")
	os.WriteFile(evFile, jb, 0o644)
	fmt.Printf("property=%s tier=%s functions=%d obligations=%d discharged=%d known-findings=%d violations=%d undecided=%d broken=%d wall=%.1fs\n",
		id, *tier, len(funcs), total, discharged, knownHits, violations, len(undecided), broken, time.Since(t0).Seconds())
	if violations > 0 {
		return 1
	}
	if broken > 0 {
		return 2
	}
	return 0
}

func funcHasFailedObligation(r *FuncReport) bool {
	for _, o := range r.Obligations {
		if o.Status == "failed" {
			return true
		}
	}
	return false
}

func funcHasContractError(r *FuncReport) bool {
	for _, o := range r.Obligations {
		// (a site clause whose selector names no instruction is undecided by itself; it
		// feeds nothing into the other obligations of the function, which still decide)
		if o.Status == "error" && !strings.Contains(o.Detail, "matches no instruction of the function") {
			return true
		}
	}
	return false
}

func arithOf(reps []*FuncReport) map[string]string {
	m := map[string]string{}
	for _, r := range reps {
		m[strings.ReplaceAll(r.Func, "github.com/ipfs/boxo/", "")] = r.Arith
	}
	return m
}

func relFiles(fs []string) []string {
	var out []string
	for _, f := range fs {
		out = append(out, strings.TrimPrefix(f, repoDir()+"/"))
	}
	return out
}

func tailLines(s string, n int) []string {
	ls := strings.Split(strings.TrimSpace(s), "\n")
	if len(ls) > n {
		ls = ls[len(ls)-n:]
	}
	for i, l := range ls {
		if len(l) > 400 {
			ls[i] = l[:400] + "..."
		}
	}
	return ls
}

func lastBytes(s string, n int) string {
	if len(s) > n {
		return "..." + s[len(s)-n:]
	}
	return s
}

func matchKnown(known []knownFinding, prop, name, output string) *knownFinding {
	for i := range known {
		k := &known[i]
		if k.prop != prop || !strings.Contains(name, k.match) {
			continue
		}
		if k.re == nil {
			if output == "" {
				return k
			}
			continue
		}
		if output != "" && k.re.MatchString(output) {
			return k
		}
	}
	return nil
}

func findReplay(cfg *PropConfig, db *ContractDB, r *FuncReport, name string) *ReplaySpec {
	for i := range cfg.Replay {
		if strings.Contains(name, cfg.Replay[i].Match) {
			return &cfg.Replay[i]
		}
	}
	return nil
}

var statsRe = regexp.MustCompile(`(?m)^\s*BOUNDED-STATS (\{.*\})\s*$`)

func parseStats(out string) map[string]any {
	m := map[string]any{}
	for _, sm := range statsRe.FindAllStringSubmatch(out, -1) {
		var one map[string]any
		if json.Unmarshal([]byte(sm[1]), &one) == nil {
			for k, v := range one {
				if f, ok := v.(float64); ok {
					if old, ok := m[k].(float64); ok {
						m[k] = old + f
						continue
					}
				}
				m[k] = v
			}
		}
	}
	return m
}

var failRe = regexp.MustCompile(`(?m)^\s*(--- FAIL: .*|.*VERIF-FAIL.*|panic: .*|fatal error: .*)$`)

func failLines(out string) []string {
	var fl []string
	for _, m := range failRe.FindAllString(out, -1) {
		if strings.Contains(m, "VERIF-FAIL") {
			fl = append(fl, strings.TrimSpace(m))
		}
	}
	if len(fl) == 0 {
		for _, m := range failRe.FindAllString(out, -1) {
			fl = append(fl, strings.TrimSpace(m))
		}
	}
	return fl
}

func cmdReplay(cfg *PropConfig, file string) int {
	b, err := os.ReadFile(file)
	if err != nil {
		fmt.Fprintln(os.Stderr, err)
		return 2
	}
	var rec struct {
		Obligation string       `json:"obligation"`
		Model      string       `json:"model"`
		ReplayTest *ReplaySpec  `json:"replay_test"`
		Bounded    *BoundedSpec `json:"bounded"`
	}
	if err := json.Unmarshal(b, &rec); err != nil {
		fmt.Fprintln(os.Stderr, err)
		return 2
	}
	switch {
	case rec.Bounded != nil:
		pass, out, err := runOverlayTest(rec.Bounded.Pkg, rec.Bounded.File, rec.Bounded.Extra, rec.Bounded.Run, rec.Bounded.TimeoutS, nil, "")
		fmt.Println(out)
		if err != nil {
			fmt.Fprintln(os.Stderr, err)
			return 2
		}
		if !pass {
			return 1
		}
	case rec.ReplayTest != nil:
		pass, out, err := runOverlayTest(rec.ReplayTest.Pkg, rec.ReplayTest.File, nil, "^"+rec.ReplayTest.Run+"$", 180, []string{"GOVC_MODEL=" + rec.Model}, "")
		fmt.Println(out)
		if err != nil {
			fmt.Fprintln(os.Stderr, err)
			return 2
		}
		if !pass {
			return 1
		}
	default:
		fmt.Printf("obligation %s has no executable replay (no-failing-input-found); solver output is in %s\n", rec.Obligation, file)
	}
	return 0
}
