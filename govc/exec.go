package main

import (
	"fmt"
	"go/token"
	"go/types"
	"sort"
	"strconv"
	"strings"

	"golang.org/x/tools/go/ssa"
)

type blockOut struct {
	st    *State
	reach Term
}

type exitRec struct {
	st      *State
	reach   Term
	results []Term
}

type closure struct {
	fn       *ssa.Function
	bindings []ssa.Value
	frame    *Frame
}

type Frame struct {
	c        *Ctx
	fn       *ssa.Function
	fc       *FuncContract
	id       int
	depth    int
	vals     map[ssa.Value]Term
	locs     map[ssa.Value]*Loc
	tuples   map[ssa.Value][]Term
	closures map[ssa.Value]*closure
	out      map[*ssa.BasicBlock]*blockOut
	edge     map[[2]int]Term
	headers  map[*ssa.BasicBlock]int
	loopBody map[*ssa.BasicBlock]map[*ssa.BasicBlock]bool
	hdrState map[*ssa.BasicBlock]*hdrInfo
	siteOrd  map[ssa.Instruction]map[string]int
	exits    []exitRec
	entry    *State
	params   map[string]Val
	shape    bool // shape-only evaluation (no terms)
	curBlock *ssa.BasicBlock
	curIdx   int
	parent   *Frame
	instrOrd map[ssa.Instruction]int
	callRes  map[string][]Val
	// results of calls referred to by a clause before the call is generated
	pendingRes map[string]Val
	curState *State
}

// freeVarLookup resolves the captured variables of a closure by name, reading
// their cells in the given state (used by requires/ensures of closures).
func (f *Frame) freeVarLookup(name string, st *State) (Val, bool) {
	for _, fv := range f.fn.FreeVars {
		if fv.Name() == name {
			l := f.locOf(fv)
			return Val{T: f.c.load(st, l), GT: l.typ}, true
		}
	}
	return Val{}, false
}

// resLookup serves res("<selector>#k", i) in contracts of this frame's function.
func (f *Frame) resLookup(key string, i int) (Val, bool) {
	vs, ok := f.callRes[key]
	if ok && i < len(vs) {
		return vs[i], true
	}
	if ok || strings.HasPrefix(key, "reach:") {
		return Val{}, false
	}
	// a call of the function that has not been executed on the paths generated so far
	// (e.g. referred to from a loop-continue clause on an earlier back edge): its result
	// is an unconstrained value; called("...") is false for it
	for in, ords := range f.siteOrd {
		ci, isCall := in.(ssa.CallInstruction)
		if !isCall {
			continue
		}
		for sel, k := range ords {
			if fmt.Sprintf("%s#%d", sel, k) != key {
				continue
			}
			res := ci.Common().Signature().Results()
			if i >= res.Len() {
				return Val{}, false
			}
			if f.pendingRes == nil {
				f.pendingRes = map[string]Val{}
			}
			pk := fmt.Sprintf("%s/%d", key, i)
			if v, ok := f.pendingRes[pk]; ok {
				return v, true
			}
			t := f.c.fresh(f.name("notyet"), f.c.sortOf(res.At(i).Type()))
			v := Val{T: t, GT: res.At(i).Type()}
			f.pendingRes[pk] = v
			return v, true
		}
	}
	return Val{}, false
}

type hdrInfo struct {
	phis map[*ssa.Phi]Term
	st   *State // state at the header of the current symbolic iteration (after the havoc)
}

func (c *Ctx) newFrame(fn *ssa.Function, parent *Frame) *Frame {
	c.frames++
	f := &Frame{c: c, fn: fn, id: c.frames, vals: map[ssa.Value]Term{}, locs: map[ssa.Value]*Loc{},
		tuples: map[ssa.Value][]Term{}, closures: map[ssa.Value]*closure{}, out: map[*ssa.BasicBlock]*blockOut{},
		edge: map[[2]int]Term{}, hdrState: map[*ssa.BasicBlock]*hdrInfo{}, params: map[string]Val{}, parent: parent}
	if parent != nil {
		f.depth = parent.depth + 1
	}
	f.fc = c.db.funcs[funcKey(fn)]
	f.analyzeLoops()
	f.numberSites()
	return f
}

func funcKey(fn *ssa.Function) string {
	s := fn.String()
	if o := fn.Origin(); o != nil {
		s = o.String()
	}
	// methods of generic types are addressed without their type parameter list:
	// (*pkg.LimitIter[T]).Next -> (*pkg.LimitIter).Next
	if i := strings.Index(s, "["); i >= 0 && strings.HasPrefix(s, "(") {
		if j := strings.Index(s[i:], "])"); j >= 0 {
			s = s[:i] + s[i+j+1:]
		}
	}
	return s
}

func (f *Frame) pos(i ssa.Instruction) string {
	p := f.fn.Prog.Fset.Position(i.Pos())
	if !p.IsValid() {
		return f.fn.String()
	}
	return fmt.Sprintf("%s:%d", strings.TrimPrefix(p.Filename, "/repo/"), p.Line)
}

// oname names an obligation attached to an instruction by its ordinal among
// the instructions of the same kind in the function (stable under edits
// elsewhere in the file, unlike line numbers).
func (f *Frame) oname(kind string, in ssa.Instruction) string {
	if f.instrOrd == nil {
		f.instrOrd = map[ssa.Instruction]int{}
		count := map[string]int{}
		for _, b := range f.fn.Blocks {
			for _, i := range b.Instrs {
				k := fmt.Sprintf("%T", i)
				f.instrOrd[i] = count[k]
				count[k]++
			}
		}
	}
	return fmt.Sprintf("%s#%s#%d", shortFn(f.fn), kind, f.instrOrd[in])
}

func (f *Frame) name(hint string) string {
	return fmt.Sprintf("f%d_%s", f.id, hint)
}

// ---------------------------------------------------------------------------
// loops

func (f *Frame) analyzeLoops() {
	f.headers = map[*ssa.BasicBlock]int{}
	f.loopBody = map[*ssa.BasicBlock]map[*ssa.BasicBlock]bool{}
	var hs []*ssa.BasicBlock
	for _, b := range f.fn.Blocks {
		for _, s := range b.Succs {
			if s.Dominates(b) { // back edge b -> s
				if _, ok := f.loopBody[s]; !ok {
					f.loopBody[s] = map[*ssa.BasicBlock]bool{s: true}
					hs = append(hs, s)
				}
				// natural loop: nodes reaching b without passing through s
				body := f.loopBody[s]
				var stack []*ssa.BasicBlock
				if !body[b] {
					body[b] = true
					stack = append(stack, b)
				}
				for len(stack) > 0 {
					n := stack[len(stack)-1]
					stack = stack[:len(stack)-1]
					for _, p := range n.Preds {
						if !body[p] {
							body[p] = true
							stack = append(stack, p)
						}
					}
				}
			}
		}
	}
	sort.Slice(hs, func(i, j int) bool { return hs[i].Index < hs[j].Index })
	for i, h := range hs {
		f.headers[h] = i
	}
}

func (f *Frame) isBackEdge(p, s *ssa.BasicBlock) bool { return s.Dominates(p) }

func (f *Frame) topo() []*ssa.BasicBlock {
	var order []*ssa.BasicBlock
	seen := map[*ssa.BasicBlock]bool{}
	var dfs func(b *ssa.BasicBlock)
	dfs = func(b *ssa.BasicBlock) {
		seen[b] = true
		for i := len(b.Succs) - 1; i >= 0; i-- {
			s := b.Succs[i]
			if f.isBackEdge(b, s) || seen[s] {
				continue
			}
			dfs(s)
		}
		order = append(order, b)
	}
	if len(f.fn.Blocks) > 0 {
		dfs(f.fn.Blocks[0])
	}
	if f.fn.Recover != nil && !seen[f.fn.Recover] {
		// recover block is not modelled
	}
	for i, j := 0, len(order)-1; i < j; i, j = i+1, j-1 {
		order[i], order[j] = order[j], order[i]
	}
	return order
}

// site numbering ---------------------------------------------------------------

func (f *Frame) selectorsOf(in ssa.Instruction) []string {
	var sels []string
	switch in := in.(type) {
	case ssa.CallInstruction:
		cm := in.Common()
		if cm.IsInvoke() {
			sels = append(sels, "invoke:"+cm.Method.Name())
			// invoke:<Interface>.<Method> for named interface types
			if n, ok := cm.Value.Type().(*types.Named); ok {
				sels = append(sels, "invoke:"+n.Obj().Name()+"."+cm.Method.Name())
			}
		} else {
			switch v := cm.Value.(type) {
			case *ssa.Function:
				// instances of generic functions and methods are addressed without their type
				// arguments: (*atomic.Pointer[bloom.Bloom]).Load -> call:Load, call:Pointer.Load
				fname := v.Name()
				if i := strings.Index(fname, "["); i >= 0 {
					fname = fname[:i]
				}
				sels = append(sels, "call:"+fname)
				if recv := v.Signature.Recv(); recv != nil {
					tn := recv.Type().String()
					if i := strings.Index(tn, "["); i >= 0 {
						tn = tn[:i]
					}
					if i := strings.LastIndex(tn, "."); i >= 0 {
						tn = tn[i+1:]
					}
					sels = append(sels, "call:"+tn+"."+fname)
				}
			case *ssa.Builtin:
				sels = append(sels, "builtin:"+v.Name())
			case *ssa.MakeClosure:
				sels = append(sels, "call:"+v.Fn.Name())
			default:
				// load of a func-typed field?
				if u, ok := cm.Value.(*ssa.UnOp); ok && u.Op == token.MUL {
					if fa, ok := u.X.(*ssa.FieldAddr); ok {
						st := fa.X.Type().Underlying().(*types.Pointer).Elem().Underlying().(*types.Struct)
						sels = append(sels, "callfield:"+st.Field(fa.Field).Name())
					}
					// captured-by-reference variable holding a function value
					if fv, ok := u.X.(*ssa.FreeVar); ok {
						sels = append(sels, "callparam:"+fv.Name())
					}
					if al, ok := u.X.(*ssa.Alloc); ok && al.Comment != "" {
						sels = append(sels, "callparam:"+al.Comment)
					}
				}
				if fl, ok := cm.Value.(*ssa.Field); ok {
					st := fl.X.Type().Underlying().(*types.Struct)
					sels = append(sels, "callfield:"+st.Field(fl.Field).Name())
				}
				if p, ok := cm.Value.(*ssa.Parameter); ok {
					sels = append(sels, "callparam:"+p.Name())
				}
				if fv, ok := cm.Value.(*ssa.FreeVar); ok {
					sels = append(sels, "callparam:"+fv.Name())
				}
				sels = append(sels, "calldyn")
			}
		}
		if _, ok := in.(*ssa.Go); ok {
			for i := range sels {
				sels[i] = "go-" + sels[i]
			}
		}
	case *ssa.UnOp:
		if in.Op == token.ARROW {
			sels = append(sels, "recv")
			switch ch := in.X.(type) {
			case *ssa.Parameter:
				sels = append(sels, "recv:"+ch.Name())
			case *ssa.FreeVar:
				sels = append(sels, "recv:"+ch.Name())
			}
		}
	case *ssa.Send:
		sels = append(sels, "send")
	case *ssa.Select:
		for _, s := range in.States {
			if s.Dir == types.SendOnly {
				sels = append(sels, "select-send")
				// select-send:<name of the channel variable>
				var nm string
				switch ch := s.Chan.(type) {
				case *ssa.Parameter:
					nm = ch.Name()
				case *ssa.FreeVar:
					nm = ch.Name()
				case *ssa.UnOp:
					switch x := ch.X.(type) {
					case *ssa.FreeVar:
						nm = x.Name()
					case *ssa.Alloc:
						nm = x.Comment
					}
				}
				if nm != "" {
					sels = append(sels, "select-send:"+nm)
				}
				break
			}
		}
	case *ssa.Store:
		if fa, ok := in.Addr.(*ssa.FieldAddr); ok {
			if st, ok := fa.X.Type().Underlying().(*types.Pointer).Elem().Underlying().(*types.Struct); ok {
				sels = append(sels, "store:"+st.Field(fa.Field).Name())
			}
		}
	case *ssa.Return:
		sels = append(sels, "return")
		// return:nil — returns whose last result (the error) is the literal nil
		if n := len(in.Results); n > 0 {
			if k, ok := in.Results[n-1].(*ssa.Const); ok && k.IsNil() {
				sels = append(sels, "return:nil")
			}
		}
	}
	return sels
}

func (f *Frame) numberSites() {
	f.siteOrd = map[ssa.Instruction]map[string]int{}
	count := map[string]int{}
	for _, b := range f.fn.Blocks {
		for _, in := range b.Instrs {
			sels := f.selectorsOf(in)
			if len(sels) == 0 {
				continue
			}
			m := map[string]int{}
			for _, s := range sels {
				m[s] = count[s]
				count[s]++
			}
			f.siteOrd[in] = m
		}
	}
	// a site clause whose selector names no instruction of the function generates no
	// obligation at all: report it instead of passing vacuously
	if f.fc != nil && f.parent == nil {
		for _, sc := range f.fc.Sites {
			sel := sc.Selector
			// prohibitions ("the function never does X": condition false, or a clause named
			// never_...) describe instructions that need not exist
			if strings.TrimSpace(sc.Src) == "false" || strings.HasPrefix(sc.Name, "never_") {
				continue
			}
			hit := false
			if i := strings.LastIndex(sel, "#"); i >= 0 {
				if k, err := strconv.Atoi(sel[i+1:]); err == nil {
					hit = count[sel[:i]] > k
				}
			}
			if !hit && count[sel] > 0 {
				hit = true
			}
			if !hit {
				f.c.oblige("error", fmt.Sprintf("%s#site:%s", shortFn(f.fn), sc.Name), tTrue, tFalse,
					fmt.Sprintf("contract error: site selector %q matches no instruction of the function", sel))
			}
		}
	}
}

// checkSites emits the site obligations attached to instruction in.
func (f *Frame) checkSites(in ssa.Instruction, st *State, reach Term, args []Val) {
	if f.fc == nil || len(f.fc.Sites) == 0 {
		return
	}
	ords := f.siteOrd[in]
	for _, sc := range f.fc.Sites {
		matched := false
		for sel, k := range ords {
			if sc.Selector == sel || sc.Selector == fmt.Sprintf("%s#%d", sel, k) {
				matched = true
			}
		}
		if !matched {
			continue
		}
		env := f.envAt(st, in.Block(), f.curIdx)
		for i, a := range args {
			env.vars[fmt.Sprintf("arg%d", i)] = a
		}
		t, err := env.evalBool(sc.E)
		if err != nil {
			f.c.oblige("error", fmt.Sprintf("%s#site:%s", shortFn(f.fn), sc.Name), reach, tFalse, "contract error: "+err.Error())
			continue
		}
		f.c.oblige("site", f.oname("site:"+sc.Name, in), reach, t, f.pos(in))
	}
}

func shortFn(fn *ssa.Function) string {
	s := fn.String()
	s = strings.ReplaceAll(s, "github.com/ipfs/boxo/", "")
	return s
}

// ---------------------------------------------------------------------------
// values

func (f *Frame) val(v ssa.Value) Term {
	c := f.c
	switch v := v.(type) {
	case *ssa.Const:
		return c.constTerm(v)
	case *ssa.Function:
		t := c.constNamed("fn_"+v.String(), SInt)
		if !c.fnNonNil[t.S] {
			if c.fnNonNil == nil {
				c.fnNonNil = map[string]bool{}
			}
			c.fnNonNil[t.S] = true
			c.assume(app(SBool, "<", intLit(0), t), false)
		}
		return t
	case *ssa.Global:
		return c.constNamed("gaddr_"+v.String(), SInt)
	case *ssa.Builtin:
		return intLit(0)
	}
	if t, ok := f.vals[v]; ok {
		return t
	}
	if l, ok := f.locs[v]; ok {
		// address of a field/element used as a first-class value
		if l.root == rootField && len(l.path) == 0 {
			// the address of a field of a heap object is a stable function of
			// the object and the field (needed for locks embedded in structs)
			t := c.fieldAddr(l.base, l.comp)
			f.vals[v] = t
			return t
		}
		t := c.fresh("addr", SInt)
		c.assume(app(SBool, "<", intLit(0), t), false)
		f.vals[v] = t
		return t
	}
	if f.shape {
		return T(c.sortOf(v.Type()), "?")
	}
	panic(fmt.Sprintf("%s: value %s (%T) not evaluated", f.fn, v.Name(), v))
}

func (f *Frame) valTyped(v ssa.Value) Val { return Val{T: f.val(v), GT: v.Type()} }

// locOf resolves an address-valued SSA value to a location.
func (f *Frame) locOf(v ssa.Value) *Loc {
	c := f.c
	if l, ok := f.locs[v]; ok {
		return l
	}
	switch v := v.(type) {
	case *ssa.Global:
		pt := v.Type().(*types.Pointer).Elem()
		pkg := ""
		if v.Pkg != nil {
			pkg = v.Pkg.Pkg.Path()
		}
		return &Loc{typ: pt, root: rootGlobal, comp: c.globalComp(pkg, v.Name(), pt)}
	case *ssa.FieldAddr:
		if f.shape {
			return c.fieldLoc(f.locOf(v.X), v.Field)
		}
	case *ssa.IndexAddr:
		if f.shape {
			return f.indexAddrLoc(v, nil, tTrue)
		}
	}
	pt, ok := v.Type().Underlying().(*types.Pointer)
	if !ok {
		return &Loc{root: rootOpaque, typ: v.Type()}
	}
	var base Term
	if f.shape {
		base = T(SInt, "?")
	} else {
		base = f.val(v)
	}
	return c.objLoc(base, pt.Elem())
}

func (f *Frame) indexAddrLoc(v *ssa.IndexAddr, st *State, reach Term) *Loc {
	c := f.c
	var idx Term
	if f.shape {
		idx = T(c.I(), "?")
	} else {
		idx = f.intAs(v.Index, c.I())
	}
	switch xt := v.X.Type().Underlying().(type) {
	case *types.Slice:
		var sl Term
		if f.shape {
			sl = T(SSlice, "?")
		} else {
			sl = f.val(v.X)
			f.boundsCheck(v, reach, idx, app(c.I(), "sl_len", sl))
		}
		return &Loc{typ: xt.Elem(), root: rootElem, comp: c.elemComp(xt.Elem()), base: app(SInt, "sl_arr", sl),
			off: app(c.I(), "sl_off", sl), idx: idx}
	case *types.Pointer:
		l := f.locOf(v.X)
		if at, ok := xt.Elem().Underlying().(*types.Array); ok && !f.shape {
			f.boundsCheck(v, reach, idx, c.intConst(at.Len(), c.I()))
		}
		if l.root == rootCell && len(l.path) == 0 {
			// cell holding an array value
			n := *l
			n.path = []pathStep{{field: -1, idx: idx, typ: l.typ}}
			n.typ = l.typ.Underlying().(*types.Array).Elem()
			return &n
		}
		return c.indexLoc(l, idx)
	}
	return &Loc{root: rootOpaque, typ: types.Typ[types.Int]}
}

func (f *Frame) boundsCheck(in ssa.Instruction, reach Term, idx, ln Term) {
	c := f.c
	var ok Term
	if c.mode == "bv" {
		ok = tAnd(app(SBool, "bvsle", c.intConst(0, c.I()), idx), app(SBool, "bvslt", idx, ln))
	} else {
		ok = tAnd(app(SBool, "<=", intLit(0), idx), app(SBool, "<", idx, ln))
	}
	if c.safety["index"] && f.depth == 0 || c.safety["index"] && f.fn.Parent() != nil {
		c.oblige("nopanic", f.oname("nopanic:index", in), reach, ok, f.pos(in))
	}
	c.assume(tImp(reach, ok), false)
}

// intAs evaluates an integer operand and adapts it to sort s (index/shift operands).
func (f *Frame) intAs(v ssa.Value, s Sort) Term {
	t := f.val(v)
	return f.c.resize(t, v.Type(), s)
}

func (c *Ctx) resize(t Term, from types.Type, s Sort) Term {
	if t.Sort == s {
		return t
	}
	wf, okf := t.Sort.isBV()
	wt, okt := s.isBV()
	if okf && okt {
		_, signed, _ := intInfo(from)
		if wt < wf {
			return T(s, fmt.Sprintf("((_ extract %d 0) %s)", wt-1, t.S))
		}
		if signed {
			return T(s, fmt.Sprintf("((_ sign_extend %d) %s)", wt-wf, t.S))
		}
		return T(s, fmt.Sprintf("((_ zero_extend %d) %s)", wt-wf, t.S))
	}
	return t
}

// ---------------------------------------------------------------------------
// arithmetic helpers

func (c *Ctx) iadd(a, b Term) Term {
	if c.mode == "bv" {
		return app(a.Sort, "bvadd", a, b)
	}
	return app(SInt, "+", a, b)
}
func (c *Ctx) isub(a, b Term) Term {
	if c.mode == "bv" {
		return app(a.Sort, "bvsub", a, b)
	}
	return app(SInt, "-", a, b)
}
func (c *Ctx) ile(a, b Term) Term {
	if c.mode == "bv" {
		return app(SBool, "bvsle", a, b)
	}
	return app(SBool, "<=", a, b)
}
func (c *Ctx) ilt(a, b Term) Term {
	if c.mode == "bv" {
		return app(SBool, "bvslt", a, b)
	}
	return app(SBool, "<", a, b)
}

// tdiv is Go's truncated division on mathematical integers.
func (c *Ctx) tdiv(a, b Term) Term {
	c.declare("go_div", "(define-fun go_div ((a Int) (b Int)) Int (ite (>= a 0) (ite (> b 0) (div a b) (- (div a (- b)))) (ite (> b 0) (- (div (- a) b)) (div (- a) (- b)))))")
	return app(SInt, "go_div", a, b)
}
func (c *Ctx) trem(a, b Term) Term {
	c.tdiv(a, b)
	c.declare("go_rem", "(define-fun go_rem ((a Int) (b Int)) Int (- a (* b (go_div a b))))")
	return app(SInt, "go_rem", a, b)
}

func (c *Ctx) strAt(s, i Term) Term {
	bs := c.sortOf(types.Typ[types.Uint8])
	c.declare("str_at", fmt.Sprintf("(declare-fun str_at (Str %s) %s)", c.I(), bs))
	t := app(bs, "str_at", s, i)
	if c.mode == "int" {
		c.assume(c.typeRange(t, types.Typ[types.Uint8]), false)
	}
	return t
}

func (c *Ctx) sliceElem(st *State, sl, i Term, elem types.Type) Term {
	comp := c.elemComp(elem)
	inner := app(elemOfArr(c.compSort[comp]), "select", c.get(st, comp), app(SInt, "sl_arr", sl))
	return c.slElem(inner, app(c.I(), "sl_off", sl), i)
}

var sentinelSeen = map[*Ctx][]Term{}

// loadGlobal reads a package-level variable. Package-level error variables are
// treated as immutable, non-nil and pairwise distinct (listed assumption).
func (c *Ctx) loadGlobal(st *State, pkg, name string, t types.Type) Term {
	if types.Identical(t, types.Universe.Lookup("error").Type()) {
		nm := "gv_" + sanitize(pkg+"."+name)
		if !c.declared[nm] {
			v := c.constNamed(nm, SIface)
			c.assume(tNot(tEq(v, T(SIface, "nil_iface"))), false)
			for _, o := range sentinelSeen[c] {
				c.assume(tNot(tEq(v, o)), false)
			}
			sentinelSeen[c] = append(sentinelSeen[c], v)
			c.assumed["package-level error variables are immutable, non-nil and pairwise distinct"] = true
		}
		return T(SIface, nm)
	}
	key := c.globalComp(pkg, name, t)
	return c.get(st, key)
}

func (f *Frame) binop(in *ssa.BinOp, reach Term) Term {
	c := f.c
	x, y := f.val(in.X), f.val(in.Y)
	xt := in.X.Type()
	rs := c.sortOf(in.Type())
	switch in.Op {
	case token.EQL, token.NEQ:
		var eq Term
		if x.Sort != y.Sort {
			c.note("comparison of differently sorted operands (havoc)")
			eq = c.fresh("cmp", SBool)
		} else {
			eq = tEq(x, y)
		}
		if in.Op == token.NEQ {
			return tNot(eq)
		}
		return eq
	case token.LAND, token.LOR:
		// not produced by ssa
	}
	if x.Sort == SBool {
		c.note("boolean binop " + in.Op.String())
		return c.fresh("b", rs)
	}
	if x.Sort == SStr {
		switch in.Op {
		case token.ADD:
			c.declare("str_cat", "(declare-fun str_cat (Str Str) Str)")
			r := app(SStr, "str_cat", x, y)
			c.assume(tEq(app(c.I(), "str_len", r), c.iadd(app(c.I(), "str_len", x), app(c.I(), "str_len", y))), false)
			return r
		case token.LSS, token.LEQ, token.GTR, token.GEQ:
			c.declare("str_lt", "(declare-fun str_lt (Str Str) Bool)")
			c.assumed["string order: str_lt is a strict total order (irreflexive, asymmetric instances only)"] = true
			lt := app(SBool, "str_lt", x, y)
			gt := app(SBool, "str_lt", y, x)
			c.assume(tAnd(tNot(tAnd(lt, gt)), tImp(tEq(x, y), tAnd(tNot(lt), tNot(gt))), tImp(tNot(tEq(x, y)), tOr(lt, gt))), false)
			switch in.Op {
			case token.LSS:
				return lt
			case token.GTR:
				return gt
			case token.LEQ:
				return tNot(gt)
			default:
				return tNot(lt)
			}
		}
	}
	w, signed, isInt := intInfo(xt)
	if !isInt {
		c.note("binop " + in.Op.String() + " on " + xt.String() + " (havoc)")
		return c.fresh("binop", rs)
	}
	bv := c.mode == "bv"
	switch in.Op {
	case token.LSS, token.LEQ, token.GTR, token.GEQ:
		ops := map[token.Token][3]string{token.LSS: {"<", "bvslt", "bvult"}, token.LEQ: {"<=", "bvsle", "bvule"},
			token.GTR: {">", "bvsgt", "bvugt"}, token.GEQ: {">=", "bvsge", "bvuge"}}[in.Op]
		if !bv {
			return app(SBool, ops[0], x, y)
		}
		if signed {
			return app(SBool, ops[1], x, y)
		}
		return app(SBool, ops[2], x, y)
	case token.ADD, token.SUB, token.MUL:
		var r Term
		if bv {
			r = app(x.Sort, map[token.Token]string{token.ADD: "bvadd", token.SUB: "bvsub", token.MUL: "bvmul"}[in.Op], x, y)
		} else {
			r = app(SInt, map[token.Token]string{token.ADD: "+", token.SUB: "-", token.MUL: "*"}[in.Op], x, y)
			if c.checkOvf && f.ownCode() {
				c.oblige("overflow", f.oname("overflow", in), reach, c.typeRange(r, xt), f.pos(in))
			}
			c.assume(tImp(reach, c.typeRange(r, xt)), false)
		}
		return r
	case token.QUO, token.REM:
		zero := c.intConst(0, x.Sort)
		if c.safety["div"] {
			c.oblige("nopanic", f.oname("nopanic:div", in), reach, tNot(tEq(y, zero)), f.pos(in))
		}
		c.assume(tImp(reach, tNot(tEq(y, zero))), false)
		if bv {
			op := "bvudiv"
			if in.Op == token.REM {
				op = "bvurem"
			}
			if signed {
				op = "bvsdiv"
				if in.Op == token.REM {
					op = "bvsrem"
				}
			}
			return app(x.Sort, op, x, y)
		}
		if in.Op == token.QUO {
			return c.tdiv(x, y)
		}
		return c.trem(x, y)
	case token.AND, token.OR, token.XOR, token.AND_NOT:
		if bv {
			switch in.Op {
			case token.AND:
				return app(x.Sort, "bvand", x, y)
			case token.OR:
				return app(x.Sort, "bvor", x, y)
			case token.XOR:
				return app(x.Sort, "bvxor", x, y)
			default:
				return app(x.Sort, "bvand", x, app(x.Sort, "bvnot", y))
			}
		}
		c.note("bit operation in int mode (havoc)")
		r := c.fresh("bitop", SInt)
		c.assume(c.typeRange(r, xt), false)
		return r
	case token.SHL, token.SHR:
		if bv {
			_, ysigned, _ := intInfo(in.Y.Type())
			_ = ysigned
			wy, _ := y.Sort.isBV()
			var cnt Term
			var big Term = tFalse
			switch {
			case wy == w:
				cnt = y
			case wy < w:
				cnt = T(x.Sort, fmt.Sprintf("((_ zero_extend %d) %s)", w-wy, y.S))
			default:
				cnt = T(x.Sort, fmt.Sprintf("((_ extract %d 0) %s)", w-1, y.S))
				big = app(SBool, "bvuge", y, c.uintConst(uint64(w), y.Sort))
			}
			if in.Op == token.SHL {
				return tIte(big, c.intConst(0, x.Sort), app(x.Sort, "bvshl", x, cnt))
			}
			if signed {
				return tIte(big, app(x.Sort, "bvashr", x, c.intConst(int64(w-1), x.Sort)), app(x.Sort, "bvashr", x, cnt))
			}
			return tIte(big, c.intConst(0, x.Sort), app(x.Sort, "bvlshr", x, cnt))
		}
		// int mode: shifts by constants become multiplication / division
		if k, ok := in.Y.(*ssa.Const); ok && k.Value != nil {
			n := k.Int64()
			if n >= 0 && n < 63 {
				p := intLit(int64(1) << uint(n))
				if in.Op == token.SHL {
					r := app(SInt, "*", x, p)
					if c.checkOvf && f.ownCode() {
						c.oblige("overflow", f.oname("overflow", in), reach, c.typeRange(r, xt), f.pos(in))
					}
					return r
				}
				return app(SInt, "div", x, p) // floor division = arithmetic shift
			}
		}
		c.note("variable shift in int mode (havoc)")
		r := c.fresh("shift", SInt)
		c.assume(c.typeRange(r, xt), false)
		return r
	}
	c.note("binop " + in.Op.String() + " (havoc)")
	return c.fresh("binop", rs)
}

func (f *Frame) convert(in ssa.Instruction, x ssa.Value, to types.Type, reach Term) Term {
	c := f.c
	v := f.val(x)
	from := x.Type()
	ts := c.sortOf(to)
	wf, sf, fromInt := intInfo(from)
	wt, st2, toInt := intInfo(to)
	if fromInt && toInt {
		if c.mode == "bv" {
			switch {
			case wt == wf:
				return v
			case wt < wf:
				return T(ts, fmt.Sprintf("((_ extract %d 0) %s)", wt-1, v.S))
			case sf:
				return T(ts, fmt.Sprintf("((_ sign_extend %d) %s)", wt-wf, v.S))
			default:
				return T(ts, fmt.Sprintf("((_ zero_extend %d) %s)", wt-wf, v.S))
			}
		}
		// int mode: identity when the value fits, obligation otherwise
		fits := (sf == st2 && wt >= wf) || (!sf && st2 && wt > wf)
		if !fits {
			rng := c.typeRange(v, to)
			if c.checkOvf && f.ownCode() {
				c.oblige("overflow", f.oname("overflow:conv", in), reach, rng, f.pos(in))
			}
			c.assume(tImp(reach, rng), false)
		}
		return v
	}
	fs := c.sortOf(from)
	if fs == ts {
		return v
	}
	// string <-> []byte
	if fs == SStr && ts == SSlice {
		c.note("string to []byte conversion (contents uninterpreted)")
		r := c.fresh("bytes", SSlice)
		c.assume(tAnd(tEq(app(c.I(), "sl_len", r), app(c.I(), "str_len", v)), tEq(app(c.I(), "sl_off", r), c.intConst(0, c.I())),
			c.ile(app(c.I(), "sl_len", r), app(c.I(), "sl_cap", r)), c.typeRange(app(c.I(), "sl_cap", r), types.Typ[types.Int])), false)
		if f.curState != nil {
			// the conversion allocates a fresh backing array
			na := c.define(f.name("bytes_arr"), app(SInt, "+", f.curState.alloc, intLit(1)))
			f.curState.alloc = na
			c.assume(tEq(app(SInt, "sl_arr", r), na), false)
		}
		return r
	}
	if fs == SSlice && ts == SStr {
		c.declare("str_of_bytes", fmt.Sprintf("(declare-fun str_of_bytes (%s %s %s) Str)", arrSort(c.I(), c.sortOf(types.Typ[types.Uint8])), c.I(), c.I()))
		c.note("[]byte to string conversion (contents uninterpreted, length kept)")
		r := c.fresh("str", SStr)
		c.assume(tEq(app(c.I(), "str_len", r), app(c.I(), "sl_len", v)), false)
		return r
	}
	c.note(fmt.Sprintf("conversion %s -> %s (havoc)", from, to))
	r := c.fresh("conv", ts)
	if toInt {
		c.assume(c.typeRange(r, to), false)
	}
	return r
}

// ---------------------------------------------------------------------------
// running a function body

// run symbolically executes the body from state st reached under `reach` and
// returns the merged normal exit (nil if no return is reachable).
func (f *Frame) run(st *State, reach Term) *exitRec {
	c := f.c
	if len(f.fn.Blocks) == 0 {
		return nil
	}
	f.entry = st.clone()
	// defer flags
	for _, b := range f.fn.Blocks {
		for _, in := range b.Instrs {
			if d, ok := in.(*ssa.Defer); ok {
				key := f.deferKey(d)
				c.regComp(key, SBool)
				st.heap[key] = tFalse
			}
		}
	}
	order := f.topo()
	for _, b := range order {
		var in *State
		var r Term
		if b.Index == 0 {
			in, r = st, reach
		} else {
			in, r = f.mergePreds(b)
			if in == nil {
				continue
			}
		}
		f.execBlock(b, in, r)
	}
	if len(f.exits) == 0 {
		return nil
	}
	return f.mergeExits()
}

func (f *Frame) deferKey(d *ssa.Defer) string {
	n := 0
	for _, b := range f.fn.Blocks {
		for _, in := range b.Instrs {
			if in == ssa.Instruction(d) {
				return fmt.Sprintf("D|f%d|%d", f.id, n)
			}
			if _, ok := in.(*ssa.Defer); ok {
				n++
			}
		}
	}
	return fmt.Sprintf("D|f%d|x", f.id)
}

type inEdge struct {
	pred *ssa.BasicBlock
	st   *State
	cond Term
}

func (f *Frame) inEdges(b *ssa.BasicBlock, wantBack bool) []inEdge {
	var es []inEdge
	seen := map[*ssa.BasicBlock]bool{}
	for _, p := range b.Preds {
		if seen[p] {
			continue
		}
		seen[p] = true
		if f.isBackEdge(p, b) != wantBack {
			continue
		}
		o, ok := f.out[p]
		if !ok {
			continue
		}
		cnd, ok := f.edge[[2]int{p.Index, b.Index}]
		if !ok {
			continue
		}
		es = append(es, inEdge{p, o.st, cnd})
	}
	return es
}

func (f *Frame) mergeStates(es []inEdge) *State {
	c := f.c
	if len(es) == 1 {
		return es[0].st.clone()
	}
	n := &State{heap: map[string]Term{}}
	sameEpoch := true
	maxEpoch := es[0].st.epoch
	for _, e := range es {
		if e.st.epoch != es[0].st.epoch {
			sameEpoch = false
		}
		if e.st.epoch > maxEpoch {
			maxEpoch = e.st.epoch
		}
	}
	n.epoch = maxEpoch
	for _, e := range es {
		if e.st.gepoch != es[0].st.gepoch {
			sameEpoch = false
		}
		if e.st.gepoch > n.gepoch {
			n.gepoch = e.st.gepoch
		}
	}
	keys := map[string]bool{}
	if sameEpoch {
		for _, e := range es {
			for k := range e.st.heap {
				keys[k] = true
			}
		}
	} else {
		for k := range c.compSort {
			keys[k] = true
		}
	}
	for _, k := range sortedKeys(keys) {
		var vs []Term
		same := true
		for _, e := range es {
			v := c.get(e.st, k)
			vs = append(vs, v)
			if v.S != vs[0].S {
				same = false
			}
		}
		if same {
			n.heap[k] = vs[0]
			continue
		}
		m := vs[len(vs)-1]
		for i := len(vs) - 2; i >= 0; i-- {
			m = tIte(es[i].cond, vs[i], m)
		}
		n.heap[k] = c.define(c.compName(k)+"_m", m)
	}
	// allocation counter
	a := es[len(es)-1].st.alloc
	sameA := true
	for _, e := range es {
		if e.st.alloc.S != a.S {
			sameA = false
		}
	}
	if !sameA {
		for i := len(es) - 2; i >= 0; i-- {
			a = tIte(es[i].cond, es[i].st.alloc, a)
		}
		a = c.define("alloc_m", a)
	}
	n.alloc = a
	return n
}

func (f *Frame) mergePreds(b *ssa.BasicBlock) (*State, Term) {
	c := f.c
	es := f.inEdges(b, false)
	if len(es) == 0 {
		return nil, tFalse
	}
	var conds []Term
	for _, e := range es {
		conds = append(conds, e.cond)
	}
	reach := tOr(conds...)
	rv := c.constNamed(f.name(fmt.Sprintf("reach_b%d", b.Index)), SBool)
	c.assume(tEq(rv, reach), true)
	return f.mergeStates(es), rv
}

// phiEntry computes the merged value of a phi over the given edges.
func (f *Frame) phiOver(phi *ssa.Phi, es []inEdge) Term {
	b := phi.Block()
	var vs []Term
	for _, e := range es {
		for i, p := range b.Preds {
			if p == e.pred {
				vs = append(vs, f.val(phi.Edges[i]))
				break
			}
		}
	}
	m := vs[len(vs)-1]
	for i := len(vs) - 2; i >= 0; i-- {
		m = tIte(es[i].cond, vs[i], m)
	}
	return m
}

func (f *Frame) execBlock(b *ssa.BasicBlock, st *State, reach Term) {
	c := f.c
	f.curBlock = b
	for _, in := range b.Instrs {
		if _, ok := in.(*ssa.Phi); !ok {
			break
		}
		f.markEscapes(in)
	}
	start := 0
	if ord, isHdr := f.headers[b]; isHdr {
		start = f.enterLoop(b, ord, st, reach)
	} else {
		es := f.inEdges(b, false)
		for i, in := range b.Instrs {
			phi, ok := in.(*ssa.Phi)
			if !ok {
				start = i
				break
			}
			v := c.constNamed(f.name(phi.Name()), c.sortOf(phi.Type()))
			c.assume(tEq(v, f.phiOver(phi, es)), true)
			f.vals[phi] = v
			f.mergePhiMeta(phi, es)
			start = i + 1
		}
	}
	for i := start; i < len(b.Instrs); i++ {
		f.curIdx = i
		f.curState = st
		f.markEscapes(b.Instrs[i])
		f.execInstr(b.Instrs[i], st, reach)
		switch a := b.Instrs[i].(type) {
		case *ssa.Alloc:
			if _, inLoop := f.inAnyLoop(b); !inLoop {
				c.unescaped[fmt.Sprintf("f%d:%s", f.id, a.Name())] = f.vals[a]
				c.unescapedT[fmt.Sprintf("f%d:%s", f.id, a.Name())] = a.Type().Underlying().(*types.Pointer).Elem()
			}
		case *ssa.MakeMap:
			if _, inLoop := f.inAnyLoop(b); !inLoop {
				c.unescaped[fmt.Sprintf("f%d:%s", f.id, a.Name())] = f.vals[a]
			}
		}
	}
}

func (f *Frame) inAnyLoop(b *ssa.BasicBlock) (*ssa.BasicBlock, bool) {
	for h, body := range f.loopBody {
		if body[b] {
			return h, true
		}
	}
	return nil, false
}

// mergePhiMeta propagates closure knowledge through phis whose inputs agree.
func (f *Frame) mergePhiMeta(phi *ssa.Phi, es []inEdge) {
	var cl *closure
	for i, e := range phi.Edges {
		_ = i
		k := f.closures[e]
		if k == nil {
			return
		}
		if cl != nil && cl != k {
			return
		}
		cl = k
	}
	if cl != nil {
		f.closures[phi] = cl
	}
}

// enterLoop handles a loop header: establish invariants on entry, havoc, assume.
func (f *Frame) enterLoop(b *ssa.BasicBlock, ord int, st *State, reach Term) int {
	c := f.c
	es := f.inEdges(b, false)
	var lc *LoopContract
	if f.fc != nil {
		lc = f.fc.Loops[ord]
	}
	// entry values of the phis
	entry := map[*ssa.Phi]Term{}
	nphi := 0
	for i, in := range b.Instrs {
		phi, ok := in.(*ssa.Phi)
		if !ok {
			break
		}
		nphi = i + 1
		entry[phi] = c.define(f.name(phi.Name()+"_entry"), f.phiOver(phi, es))
	}
	hdrPos := f.pos(b.Instrs[len(b.Instrs)-1])
	if lc != nil {
		for _, inv := range lc.Invariants {
			env := f.envAtHeader(st, b, entry)
			t, err := env.evalBool(inv.E)
			name := fmt.Sprintf("%s#loop%d:inv-entry:%s", shortFn(f.fn), ord, inv.Name)
			if err != nil {
				c.oblige("error", name, reach, tFalse, "contract error: "+err.Error())
				continue
			}
			c.oblige("inv-entry", name, reach, t, hdrPos)
		}
	}
	// havoc what the loop writes
	comps, all := f.writeSet(f.loopBody[b])
	pre := st.clone()
	if all {
		c.havocAll(st)
		// defer flags are frame-local and survive
		for k, v := range pre.heap {
			if strings.HasPrefix(k, "D|") {
				st.heap[k] = v
			}
		}
	} else {
		bases := f.loopBases(f.loopBody[b], pre, comps)
		heapAll := comps["*heap"]
		delete(comps, "*heap")
		if heapAll {
			c.havocHeap(st)
		}
		for _, k := range sortedKeys(comps) {
			if heapAll && !strings.HasPrefix(k, "X|") {
				continue
			}
			cb := bases[k]
			s := c.compSort[k]
			if cb == nil || cb.unknown || !strings.HasPrefix(string(s), "(Array Int ") {
				c.havocComp(st, k)
				continue
			}
			// only the listed pre-existing objects (and objects allocated in the
			// loop) are written: everything else keeps its value
			old := c.get(st, k)
			c.havocComp(st, k)
			nw := st.heap[k]
			c.nfresh++
			r := T(SInt, fmt.Sprintf("r!q%d", c.nfresh))
			conds := []Term{app(SBool, "<=", r, pre.alloc)}
			for _, bt := range cb.bases {
				conds = append(conds, tNot(tEq(r, bt)))
			}
			es := elemOfArr(s)
			c.assume(T(SBool, fmt.Sprintf("(forall ((%s Int)) %s)", r.S,
				tImp(tAnd(conds...), tEq(app(es, "select", nw, r), app(es, "select", old, r))).S)), false)
		}
		na := c.fresh("alloc", SInt)
		c.assume(app(SBool, ">=", na, st.alloc), false)
		st.alloc = na
	}
	hi := &hdrInfo{phis: map[*ssa.Phi]Term{}, st: st.clone()}
	f.hdrState[b] = hi
	for phi := range entry {
		v := c.constNamed(f.name(phi.Name()), c.sortOf(phi.Type()))
		f.vals[phi] = v
		hi.phis[phi] = v
		c.assume(c.valueInv(v, phi.Type(), st), false)
	}
	// built-in invariant of `for i := range x` loops: the hidden index phi
	// rangeindex = phi[-1, rangeindex+1] with the back edge guarded by
	// rangeindex+1 < len satisfies -1 <= rangeindex and (rangeindex < len or rangeindex == -1).
	for phi, v := range hi.phis {
		if phi.Comment != "rangeindex" || len(phi.Edges) < 2 {
			continue
		}
		var inc *ssa.BinOp
		shape := true
		for i, e := range phi.Edges {
			if f.isBackEdge(b.Preds[i], b) {
				bo, ok := e.(*ssa.BinOp)
				if !ok || (inc != nil && bo != inc) {
					shape = false
					break
				}
				inc = bo
			} else if k, ok := e.(*ssa.Const); !ok || k.Value == nil || k.Int64() != -1 {
				shape = false
				break
			}
		}
		if !shape || inc == nil || inc.Op != token.ADD || inc.X != ssa.Value(phi) {
			continue
		}
		if k1, ok := inc.Y.(*ssa.Const); !ok || k1.Value == nil || k1.Int64() != 1 {
			continue
		}
		iff, ok := b.Instrs[len(b.Instrs)-1].(*ssa.If)
		if !ok {
			continue
		}
		cmp, ok := iff.Cond.(*ssa.BinOp)
		if !ok || cmp.Op != token.LSS || cmp.X != ssa.Value(inc) {
			continue
		}
		if _, evaluated := f.vals[cmp.Y]; !evaluated {
			if _, isConst := cmp.Y.(*ssa.Const); !isConst {
				continue
			}
		}
		ln := f.val(cmp.Y)
		m1 := c.intConst(-1, v.Sort)
		c.assume(tAnd(c.ile(m1, v), tOr(c.ilt(v, ln), tEq(v, m1))), false)
	}
	if lc != nil {
		for _, inv := range lc.Invariants {
			env := f.envAtHeader(st, b, hi.phis)
			env.old = f.entry
			t, err := env.evalBool(inv.E)
			if err == nil {
				c.assume(tImp(reach, t), false)
			}
		}
	}
	return nphi
}

// valueInv is the type invariant assumed for havocked / unknown values.
func (c *Ctx) valueInv(v Term, t types.Type, st *State) Term {
	switch u := t.Underlying().(type) {
	case *types.Basic:
		if _, _, ok := intInfo(u); ok {
			return c.typeRange(v, t)
		}
		if u.Info()&types.IsString != 0 {
			return tAnd(c.ile(c.intConst(0, c.I()), app(c.I(), "str_len", v)), c.typeRange(app(c.I(), "str_len", v), types.Typ[types.Int]))
		}
	case *types.Pointer, *types.Map, *types.Chan:
		return tAnd(app(SBool, "<=", intLit(0), v), app(SBool, "<=", v, st.alloc), c.notUnescaped(v))
	case *types.Slice:
		z := c.intConst(0, c.I())
		return tAnd(c.ile(z, app(c.I(), "sl_len", v)), c.ile(app(c.I(), "sl_len", v), app(c.I(), "sl_cap", v)), c.ile(z, app(c.I(), "sl_off", v)),
			app(SBool, "<=", intLit(0), app(SInt, "sl_arr", v)), app(SBool, "<=", app(SInt, "sl_arr", v), st.alloc),
			tImp(tEq(app(SInt, "sl_arr", v), intLit(0)), tEq(app(c.I(), "sl_cap", v), z)), c.notUnescaped(app(SInt, "sl_arr", v)),
			c.typeRange(app(c.I(), "sl_cap", v), types.Typ[types.Int]), c.typeRange(c.iadd(app(c.I(), "sl_off", v), app(c.I(), "sl_cap", v)), types.Typ[types.Int]))
	}
	return tTrue
}

// notUnescaped: a reference obtained from the heap, a call or a havoc cannot
// be an object this function allocated and has not yet stored or passed anywhere.
func (c *Ctx) notUnescaped(v Term) Term {
	var cs []Term
	for _, k := range sortedKeys(c.unescaped) {
		cs = append(cs, tNot(tEq(v, c.unescaped[k])))
	}
	return tAnd(cs...)
}

// markEscapes removes from the unescaped set every fresh object whose
// reference is used by `in` other than as the address of a load/store.
func (f *Frame) markEscapes(in ssa.Instruction) {
	c := f.c
	if len(c.unescaped) == 0 {
		return
	}
	if _, ok := in.(*ssa.DebugRef); ok {
		return
	}
	var buf [10]*ssa.Value
	for _, op := range in.Operands(buf[:0]) {
		if op == nil || *op == nil {
			continue
		}
		v := *op
		root := v
		switch v.(type) {
		case *ssa.FieldAddr, *ssa.IndexAddr:
			root, _ = rootOf(v)
		}
		key := fmt.Sprintf("f%d:%s", f.id, root.Name())
		if _, ok := c.unescaped[key]; !ok {
			continue
		}
		switch x := in.(type) {
		case *ssa.Store:
			if x.Addr == v && x.Val != v {
				continue
			}
		case *ssa.UnOp:
			if x.Op == token.MUL {
				continue
			}
		case *ssa.FieldAddr, *ssa.IndexAddr:
			continue
		}
		delete(c.unescaped, key)
	}
}

// backEdge emits the invariant-preservation obligations for edge p -> h.
func (f *Frame) backEdge(p, h *ssa.BasicBlock, st *State, cond Term) {
	c := f.c
	ord := f.headers[h]
	if f.fc == nil {
		return
	}
	lc := f.fc.Loops[ord]
	if lc == nil {
		return
	}
	vals := map[*ssa.Phi]Term{}
	for _, in := range h.Instrs {
		phi, ok := in.(*ssa.Phi)
		if !ok {
			break
		}
		for i, pp := range h.Preds {
			if pp == p {
				vals[phi] = f.val(phi.Edges[i])
				break
			}
		}
	}
	for _, inv := range lc.Invariants {
		env := f.envAtHeader(st, h, vals)
		t, err := env.evalBool(inv.E)
		name := fmt.Sprintf("%s#loop%d:inv-preserve:%s", shortFn(f.fn), ord, inv.Name)
		if err != nil {
			c.oblige("error", name, cond, tFalse, "contract error: "+err.Error())
			continue
		}
		c.oblige("inv-preserve", name, cond, t, f.pos(p.Instrs[len(p.Instrs)-1]))
	}
	for _, cc := range lc.Continues {
		env := f.envAtHeader(st, h, vals)
		env.res = f.resLookup
		t, err := env.evalBool(cc.E)
		name := fmt.Sprintf("%s#loop%d:continue:%s", shortFn(f.fn), ord, cc.Name)
		if err != nil {
			c.oblige("error", name, cond, tFalse, "contract error: "+err.Error())
			continue
		}
		c.oblige("loop-continue", name, cond, t, f.pos(p.Instrs[len(p.Instrs)-1]))
	}
	if lc.Decreases != nil {
		envH := f.envAtHeader(f.hdrState[h].st, h, f.hdrState[h].phis)
		envB := f.envAtHeader(st, h, vals)
		func() {
			defer func() {
				if r := recover(); r != nil {
					if ee, ok := r.(evalError); ok {
						c.oblige("error", fmt.Sprintf("%s#loop%d:decreases", shortFn(f.fn), ord), cond, tFalse, "contract error: "+ee.msg)
						return
					}
					panic(r)
				}
			}()
			a, b := envH.eval(lc.Decreases.E), envB.eval(lc.Decreases.E)
			a, b = envH.unify(a, b)
			z := c.intConst(0, a.T.Sort)
			c.oblige("decreases", fmt.Sprintf("%s#loop%d:decreases", shortFn(f.fn), ord), cond,
				tAnd(c.ilt(b.T, a.T), c.ile(z, a.T)), f.pos(p.Instrs[len(p.Instrs)-1]))
		}()
	}
}

func (f *Frame) mergeExits() *exitRec {
	c := f.c
	if len(f.exits) == 1 {
		e := f.exits[0]
		return &e
	}
	var es []inEdge
	var conds []Term
	for _, e := range f.exits {
		es = append(es, inEdge{st: e.st, cond: e.reach})
		conds = append(conds, e.reach)
	}
	st := f.mergeStates(es)
	n := len(f.exits[0].results)
	res := make([]Term, n)
	for k := 0; k < n; k++ {
		m := f.exits[len(f.exits)-1].results[k]
		for i := len(f.exits) - 2; i >= 0; i-- {
			m = tIte(f.exits[i].reach, f.exits[i].results[k], m)
		}
		res[k] = c.define(f.name(fmt.Sprintf("ret%d", k)), m)
	}
	rv := c.constNamed(f.name("reach_exit"), SBool)
	c.assume(tEq(rv, tOr(conds...)), true)
	return &exitRec{st: st, reach: rv, results: res}
}

// ---------------------------------------------------------------------------
// environments for contract expressions

func (f *Frame) contractPkg() *types.Package {
	if f.fc != nil {
		if p := pkgByPath[f.fc.Pkg]; p != nil {
			return p
		}
	}
	if f.fn.Pkg != nil {
		return f.fn.Pkg.Pkg
	}
	if f.fn.Parent() != nil && f.fn.Parent().Pkg != nil {
		return f.fn.Parent().Pkg.Pkg
	}
	return nil
}

func (f *Frame) envAt(st *State, b *ssa.BasicBlock, idx int) *Env {
	env := &Env{c: f.c, vars: map[string]Val{}, st: st, old: f.entry, pkg: f.contractPkg()}
	for k, v := range f.params {
		env.vars[k] = v
	}
	env.local = func(name string, s *State) (Val, bool) { return f.lookupLocal(name, b, idx, s, nil) }
	env.shadow = f.paramNames()
	env.atLoop = f.envAtLoop
	env.res = f.resLookup
	return env
}

func (f *Frame) envAtHeader(st *State, h *ssa.BasicBlock, phis map[*ssa.Phi]Term) *Env {
	env := &Env{c: f.c, vars: map[string]Val{}, st: st, old: f.entry, pkg: f.contractPkg()}
	for k, v := range f.params {
		env.vars[k] = v
	}
	nphi := 0
	for i, in := range h.Instrs {
		if _, ok := in.(*ssa.Phi); !ok {
			break
		}
		nphi = i + 1
	}
	env.local = func(name string, s *State) (Val, bool) { return f.lookupLocal(name, h, nphi, s, phis) }
	env.res = f.resLookup
	env.shadow = f.paramNames()
	env.atLoop = f.envAtLoop
	return env
}

// allocOfVar finds the cell of a source variable that is not kept in registers.
func (f *Frame) allocOfVar(obj types.Object) *ssa.Alloc {
	if obj == nil || !obj.Pos().IsValid() {
		return nil
	}
	for _, b := range f.fn.Blocks {
		for _, in := range b.Instrs {
			if al, ok := in.(*ssa.Alloc); ok && al.Pos() == obj.Pos() && al.Comment == obj.Name() {
				return al
			}
		}
	}
	return nil
}

// envAtLoop is the environment at the header of loop k in the current symbolic
// iteration of that loop (used by atloop(k, expr) inside the body, e.g. in the
// invariant of a nested loop).
func (f *Frame) envAtLoop(k int) *Env {
	for h, ord := range f.headers {
		if ord == k {
			hi := f.hdrState[h]
			if hi == nil || hi.st == nil {
				return nil
			}
			return f.envAtHeader(hi.st, h, hi.phis)
		}
	}
	return nil
}

func (f *Frame) paramNames() map[string]bool {
	m := map[string]bool{}
	for _, p := range f.fn.Params {
		m[p.Name()] = true
	}
	return m
}

// lookupLocal finds the SSA value that holds source variable `name` at (b, idx).
func (f *Frame) lookupLocal(name string, b *ssa.BasicBlock, idx int, st *State, phis map[*ssa.Phi]Term) (Val, bool) {
	c := f.c
	for blk := b; blk != nil; blk = blk.Idom() {
		hi := len(blk.Instrs)
		if blk == b {
			hi = idx
		}
		for i := hi - 1; i >= 0; i-- {
			switch in := blk.Instrs[i].(type) {
			case *ssa.DebugRef:
				if in.Object() != nil && in.Object().Name() == name {
					if in.IsAddr {
						l := f.locOf(in.X)
						return Val{T: c.load(st, l), GT: l.typ}, true
					}
					// a variable that lives in a cell (captured by reference or
					// address-taken): its current value is the cell's content, not
					// the value it was initialised with
					if al := f.allocOfVar(in.Object()); al != nil {
						l := f.locOf(al)
						return Val{T: c.load(st, l), GT: l.typ}, true
					}
					if t, ok := f.vals[in.X]; ok {
						return Val{T: t, GT: in.X.Type()}, true
					}
					if k, ok := in.X.(*ssa.Const); ok {
						return Val{T: c.constTerm(k), GT: k.Type()}, true
					}
				}
			case *ssa.Phi:
				if in.Comment == name {
					if phis != nil {
						if t, ok := phis[in]; ok {
							return Val{T: t, GT: in.Type()}, true
						}
					}
					if t, ok := f.vals[in]; ok {
						return Val{T: t, GT: in.Type()}, true
					}
				}
			case *ssa.Alloc:
				if in.Comment == name {
					l := f.locOf(in)
					return Val{T: c.load(st, l), GT: l.typ}, true
				}
			}
		}
	}
	for _, fv := range f.fn.FreeVars {
		if fv.Name() == name {
			l := f.locOf(fv)
			return Val{T: c.load(st, l), GT: l.typ}, true
		}
	}
	return Val{}, false
}
