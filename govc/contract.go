package main

import (
	"bufio"
	"fmt"
	"os"
	"path/filepath"
	"regexp"
	"strconv"
	"strings"
)

type Clause struct {
	Name string
	Src  string
	E    Expr
	Line string // file:line
	// Trusted: a postcondition of a verified function that is used at call
	// sites but not proved from the body (listed among the assumptions)
	Trusted bool
}

type LoopContract struct {
	Invariants []Clause
	Continues  []Clause
	Decreases  *Clause
}

type SiteContract struct {
	Name     string
	Selector string // call:<name>#k | invoke:<method>#k | callfield:<field>#k | send#k | store:<field>#k
	Clause
}

type FuncContract struct {
	Key      string
	Pkg      string // package path of the contract file
	File     string
	Props    []string
	Arith    string
	Safety   []string
	Requires []Clause
	Ensures  []Clause
	Modifies []Expr
	ModAll   bool
	ModHeap  bool // `modifies heap`: any program heap component, ghosts only as listed
	Loops    map[int]*LoopContract
	Sites    []SiteContract
	Inline   bool
	Assumed  bool
	Pure     bool
	NoEffect bool
	Havoc    bool
	// WritesArgs: the callee may write objects passed directly (writes-args)
	WritesArgs bool
	Replay   map[string]string
	Params   []string // optional explicit parameter names for ext/iface contracts
	Results  []string
	Verify   bool // generate obligations for this function
	Notes    []string
	Raw      []string
	Dyn      map[string]string
	Opaque   []string
	Use      []string
}

type SpecParam struct{ Name, Type string }

type SpecFunc struct {
	Name   string
	Params []SpecParam
	Result string
	Body   Expr
	Src    string
	Rec    bool
	Pkg    string
	Ghost  bool
	Macro  bool
}

type Axiom struct {
	Name  string
	Vars  []SpecParam
	E     Expr
	Src   string
	Pkg   string
	Lemma bool
	Props []string
	Line  string
}

type ContractDB struct {
	funcs  map[string]*FuncContract
	specs  map[string]*SpecFunc
	axioms []*Axiom
	order  []string
	files  []string
	// textual scan of assumption-bearing directives for the trusted base
	trusted []string
}

func newDB() *ContractDB {
	return &ContractDB{funcs: map[string]*FuncContract{}, specs: map[string]*SpecFunc{}}
}

var clauseRe = regexp.MustCompile(`^(requires|ensures|trusted|invariant|continue|site|lemma|axiom)(\[([A-Za-z0-9_\-.]+)\])?\s*(.*)$`)

func (db *ContractDB) loadDir(dir, pkgPath string) error {
	files, _ := filepath.Glob(filepath.Join(dir, "zz_verif_contracts*.go"))
	for _, f := range files {
		if err := db.loadFile(f, pkgPath); err != nil {
			return err
		}
	}
	return nil
}

func splitParams(s string) ([]SpecParam, error) {
	s = strings.TrimSpace(s)
	if s == "" {
		return nil, nil
	}
	var out []SpecParam
	depth := 0
	start := 0
	parts := []string{}
	for i, r := range s {
		switch r {
		case '(', '[':
			depth++
		case ')', ']':
			depth--
		case ',':
			if depth == 0 {
				parts = append(parts, s[start:i])
				start = i + 1
			}
		}
	}
	parts = append(parts, s[start:])
	for _, p := range parts {
		p = strings.TrimSpace(p)
		i := strings.IndexAny(p, " \t")
		if i < 0 {
			return nil, fmt.Errorf("parameter %q needs a name and a type", p)
		}
		out = append(out, SpecParam{Name: p[:i], Type: strings.TrimSpace(p[i+1:])})
	}
	return out, nil
}

// matchParen returns the index of the ')' matching the '(' at s[open].
func matchParen(s string, open int) int {
	depth := 0
	for i := open; i < len(s); i++ {
		switch s[i] {
		case '(':
			depth++
		case ')':
			depth--
			if depth == 0 {
				return i
			}
		}
	}
	return -1
}

func (db *ContractDB) loadFile(file, pkgPath string) (err error) {
	fh, err := os.Open(file)
	if err != nil {
		return err
	}
	defer fh.Close()
	db.files = append(db.files, file)
	sc := bufio.NewScanner(fh)
	sc.Buffer(make([]byte, 1<<20), 1<<20)
	type ln struct {
		text string
		no   int
	}
	var lines []ln
	no := 0
	for sc.Scan() {
		no++
		t := sc.Text()
		if !strings.HasPrefix(t, "//@") {
			continue
		}
		body := strings.TrimRight(t[3:], " \t")
		trim := strings.TrimSpace(body)
		if trim == "" {
			continue
		}
		if strings.HasPrefix(trim, "|") && len(lines) > 0 {
			lines[len(lines)-1].text += " " + strings.TrimSpace(trim[1:])
			continue
		}
		lines = append(lines, ln{body, no})
	}
	var cur *FuncContract
	var dups [][2]*FuncContract
	defer func() {
		if err != nil {
			return
		}
		for _, d := range dups {
			if strings.Join(d[0].Raw, "\n") != strings.Join(d[1].Raw, "\n") {
				err = fmt.Errorf("%s: assumed contract for %s differs from the one in %s", file, d[0].Key, d[0].File)
				return
			}
		}
	}()
	for _, l := range lines {
		where := fmt.Sprintf("%s:%d", file, l.no)
		fail := func(format string, a ...any) error {
			return fmt.Errorf("%s: %s", where, fmt.Sprintf(format, a...))
		}
		trim := strings.TrimSpace(l.text)
		word := trim
		rest := ""
		if i := strings.IndexAny(trim, " \t"); i >= 0 {
			word, rest = trim[:i], strings.TrimSpace(trim[i+1:])
		}
		switch {
		case word == "func":
			cur = &FuncContract{Pkg: pkgPath, File: file, Loops: map[int]*LoopContract{}, Replay: map[string]string{}, Verify: true}
			key := rest
			switch {
			case strings.HasPrefix(rest, "ext "):
				key = strings.TrimSpace(rest[4:])
				cur.Assumed = true
				cur.Verify = false
			case strings.HasPrefix(rest, "iface "):
				n := strings.TrimSpace(rest[6:])
				if !strings.Contains(n, "/") && strings.Count(n, ".") == 1 {
					n = pkgPath + "." + n
				}
				key = "iface:" + n
				cur.Assumed = true
				cur.Verify = false
			case strings.HasPrefix(rest, "("):
				// (*T).m or (T).m
				end := strings.Index(rest, ")")
				recv := rest[1:end]
				if strings.HasPrefix(recv, "*") {
					key = "(*" + pkgPath + "." + recv[1:] + ")" + rest[end+1:]
				} else {
					key = "(" + pkgPath + "." + recv + ")" + rest[end+1:]
				}
			default:
				key = pkgPath + "." + rest
			}
			// optional explicit signature names: key(p1, p2) (r1, r2)
			if i := strings.Index(key, " params "); i >= 0 {
				names := key[i+8:]
				key = key[:i]
				ps := strings.SplitN(names, "->", 2)
				cur.Params = strings.Fields(strings.ReplaceAll(ps[0], ",", " "))
				if len(ps) > 1 {
					cur.Results = strings.Fields(strings.ReplaceAll(ps[1], ",", " "))
				}
			}
			cur.Key = key
			if old, dup := db.funcs[key]; dup {
				// the same assumed contract of a dependency may be stated by several
				// packages; the texts must agree (checked at the end of the file)
				if cur.Assumed && old.Assumed && !old.Verify && !cur.Verify {
					dups = append(dups, [2]*FuncContract{old, cur})
					continue
				}
				return fail("duplicate contract for %s", key)
			}
			db.funcs[key] = cur
			db.order = append(db.order, key)
			if cur.Assumed {
				db.trusted = append(db.trusted, "assumed contract: "+key)
			}
		case word == "macro":
			// macro name(a, b) = expr   (expanded in the environment of its use; may read the heap)
			op := strings.Index(rest, "(")
			eq := strings.Index(rest, " = ")
			if op < 0 || eq < 0 {
				return fail("macro name(params) = expr")
			}
			cl := matchParen(rest, op)
			sf := &SpecFunc{Pkg: pkgPath, Src: rest, Macro: true, Name: strings.TrimSpace(rest[:op])}
			for _, p := range strings.Split(rest[op+1:cl], ",") {
				if p = strings.TrimSpace(p); p != "" {
					sf.Params = append(sf.Params, SpecParam{Name: p})
				}
			}
			e, err := parseExpr(rest[eq+3:])
			if err != nil {
				return fail("%v", err)
			}
			sf.Body = e
			if old, dup := db.specs[sf.Name]; dup && old.Src != sf.Src {
				return fail("macro %s declared twice with different text", sf.Name)
			}
			db.specs[sf.Name] = sf
			cur = nil
		case word == "spec" || word == "ghost":
			sf := &SpecFunc{Pkg: pkgPath, Src: rest, Ghost: word == "ghost"}
			if strings.HasPrefix(rest, "rec ") {
				sf.Rec = true
				rest = strings.TrimSpace(rest[4:])
			}
			op := strings.Index(rest, "(")
			if op < 0 {
				return fail("spec needs a parameter list")
			}
			cl := matchParen(rest, op)
			sf.Name = strings.TrimSpace(rest[:op])
			ps, err := splitParams(rest[op+1 : cl])
			if err != nil {
				return fail("%v", err)
			}
			sf.Params = ps
			tail := strings.TrimSpace(rest[cl+1:])
			if i := strings.Index(tail, " = "); i >= 0 {
				sf.Result = strings.TrimSpace(tail[:i])
				e, err := parseExpr(tail[i+3:])
				if err != nil {
					return fail("%v", err)
				}
				sf.Body = e
			} else {
				sf.Result = tail
			}
			if _, dup := db.specs[sf.Name]; dup {
				// identical re-declaration in another package file is tolerated
				old := db.specs[sf.Name]
				sameShape := old.Body == nil && sf.Body == nil && len(old.Params) == len(sf.Params) && old.Ghost == sf.Ghost
				if old.Src != sf.Src && !sameShape {
					return fail("spec %s declared twice with different text", sf.Name)
				}
				continue
			}
			db.specs[sf.Name] = sf
			cur = nil
		case word == "axiom" || word == "lemma" || strings.HasPrefix(word, "lemma[") || strings.HasPrefix(word, "axiom["):
			// axiom name (x T, y U): expr       lemma[C27] name (x T): expr
			ax := &Axiom{Pkg: pkgPath, Line: where, Lemma: strings.HasPrefix(word, "lemma")}
			if i := strings.Index(word, "["); i >= 0 {
				ax.Props = strings.Split(strings.Trim(word[i:], "[]"), ",")
			}
			col := -1
			depth := 0
			for i, r := range rest {
				if r == '(' {
					depth++
				}
				if r == ')' {
					depth--
				}
				if r == ':' && depth == 0 {
					col = i
					break
				}
			}
			if col < 0 {
				return fail("axiom/lemma needs 'name (vars): expr'")
			}
			head := strings.TrimSpace(rest[:col])
			if op := strings.Index(head, "("); op >= 0 {
				ax.Name = strings.TrimSpace(head[:op])
				ps, err := splitParams(head[op+1 : strings.LastIndex(head, ")")])
				if err != nil {
					return fail("%v", err)
				}
				ax.Vars = ps
			} else {
				ax.Name = head
			}
			ax.Src = strings.TrimSpace(rest[col+1:])
			e, err := parseExpr(ax.Src)
			if err != nil {
				return fail("%v", err)
			}
			ax.E = e
			db.axioms = append(db.axioms, ax)
			if !ax.Lemma {
				db.trusted = append(db.trusted, "axiom "+ax.Name+": "+ax.Src)
			}
			cur = nil
		default:
			if cur == nil {
				return fail("clause %q outside a func block", trim)
			}
			cur.Raw = append(cur.Raw, trim)
			switch word {
			case "prop":
				cur.Props = append(cur.Props, strings.Fields(strings.ReplaceAll(rest, ",", " "))...)
			case "arith":
				cur.Arith = rest
				if rest == "int-assumed" {
					db.trusted = append(db.trusted, "machine arithmetic treated as mathematical in "+cur.Key)
				}
			case "safety":
				cur.Safety = append(cur.Safety, strings.Fields(rest)...)
			case "dyn":
				// dyn <selector> noeffect|pure : policy for a dynamic call in this function
				fs := strings.Fields(rest)
				if len(fs) != 2 || (fs[1] != "noeffect" && fs[1] != "pure") {
					return fail("dyn <selector> noeffect|pure")
				}
				if cur.Dyn == nil {
					cur.Dyn = map[string]string{}
				}
				cur.Dyn[fs[0]] = fs[1]
				db.trusted = append(db.trusted, fmt.Sprintf("dynamic call %s in %s assumed %s", fs[0], cur.Key, fs[1]))
			case "opaque":
				cur.Opaque = append(cur.Opaque, strings.Fields(strings.ReplaceAll(rest, ",", " "))...)
			case "use":
				cur.Use = append(cur.Use, strings.Fields(strings.ReplaceAll(rest, ",", " "))...)
			case "inline":
				cur.Inline = true
			case "assumed":
				cur.Assumed = true
				cur.Verify = false
				db.trusted = append(db.trusted, "assumed contract: "+cur.Key)
			case "pure":
				cur.Pure = true
			case "noeffect":
				cur.NoEffect = true
			case "writes-args":
				// besides `modifies`, the callee may write the objects passed to it
				// directly (also when passed as interface values, e.g. json.Unmarshal(data, &v))
				cur.WritesArgs = true
			case "havoc":
				cur.Havoc = true
			case "note":
				cur.Notes = append(cur.Notes, rest)
			case "replay":
				fs := strings.Fields(rest)
				if len(fs) != 3 {
					return fail("replay <obligation-suffix|*> <file> <TestName>")
				}
				cur.Replay[fs[0]] = fs[1] + " " + fs[2]
			case "modifies":
				if rest == "all" {
					cur.ModAll = true
					break
				}
				if rest == "nothing" {
					break
				}
				for _, part := range splitTop(rest) {
					if strings.TrimSpace(part) == "heap" {
						cur.ModHeap = true
						continue
					}
					e, err := parseExpr(part)
					if err != nil {
						return fail("%v", err)
					}
					cur.Modifies = append(cur.Modifies, e)
				}
			case "loop":
				fs := strings.SplitN(rest, " ", 2)
				n, err := strconv.Atoi(fs[0])
				if err != nil || len(fs) < 2 {
					return fail("loop <n> invariant[name] expr")
				}
				lc := cur.Loops[n]
				if lc == nil {
					lc = &LoopContract{}
					cur.Loops[n] = lc
				}
				m := clauseRe.FindStringSubmatch(strings.TrimSpace(fs[1]))
				if m != nil && m[1] == "continue" {
					// loop <n> continue[name] expr: must hold whenever the body jumps
					// back to the loop header (not assumed at the header)
					e, err := parseExpr(m[4])
					if err != nil {
						return fail("%v", err)
					}
					name := m[3]
					if name == "" {
						name = fmt.Sprintf("cont%d", len(lc.Continues))
					}
					lc.Continues = append(lc.Continues, Clause{Name: name, Src: m[4], E: e, Line: where})
					break
				}
				if m == nil || m[1] != "invariant" {
					if strings.HasPrefix(strings.TrimSpace(fs[1]), "decreases ") {
						src := strings.TrimSpace(strings.TrimSpace(fs[1])[10:])
						e, err := parseExpr(src)
						if err != nil {
							return fail("%v", err)
						}
						lc.Decreases = &Clause{Name: "decreases", Src: src, E: e, Line: where}
						break
					}
					return fail("loop clause must be an invariant or decreases")
				}
				e, err := parseExpr(m[4])
				if err != nil {
					return fail("%v", err)
				}
				name := m[3]
				if name == "" {
					name = fmt.Sprintf("inv%d", len(lc.Invariants))
				}
				lc.Invariants = append(lc.Invariants, Clause{Name: name, Src: m[4], E: e, Line: where})
			default:
				m := clauseRe.FindStringSubmatch(trim)
				if m == nil {
					return fail("unknown clause %q", trim)
				}
				name := m[3]
				switch m[1] {
				case "requires", "ensures", "trusted":
					e, err := parseExpr(m[4])
					if err != nil {
						return fail("%v", err)
					}
					cl := Clause{Name: name, Src: m[4], E: e, Line: where, Trusted: m[1] == "trusted"}
					if m[1] == "requires" {
						if cl.Name == "" {
							cl.Name = fmt.Sprintf("pre%d", len(cur.Requires))
						}
						cur.Requires = append(cur.Requires, cl)
					} else {
						if cl.Name == "" {
							cl.Name = fmt.Sprintf("post%d", len(cur.Ensures))
						}
						cur.Ensures = append(cur.Ensures, cl)
					}
				case "site":
					// site[name] selector : expr
					i := strings.Index(m[4], " : ")
					if i < 0 {
						return fail("site[name] <selector> : expr")
					}
					e, err := parseExpr(m[4][i+3:])
					if err != nil {
						return fail("%v", err)
					}
					if name == "" {
						name = fmt.Sprintf("site%d", len(cur.Sites))
					}
					cur.Sites = append(cur.Sites, SiteContract{Name: name, Selector: strings.TrimSpace(m[4][:i]), Clause: Clause{Name: name, Src: m[4][i+3:], E: e, Line: where}})
				default:
					return fail("unknown clause %q", trim)
				}
			}
		}
	}
	return nil
}

func splitTop(s string) []string {
	var parts []string
	depth := 0
	start := 0
	for i, r := range s {
		switch r {
		case '(', '[':
			depth++
		case ')', ']':
			depth--
		case ',':
			if depth == 0 {
				parts = append(parts, strings.TrimSpace(s[start:i]))
				start = i + 1
			}
		}
	}
	parts = append(parts, strings.TrimSpace(s[start:]))
	return parts
}
