package main

import (
	"fmt"
	"go/scanner"
	"go/token"
	"strings"
)

// Contract expression AST ----------------------------------------------------

type Expr interface{ String() string }

type (
	EIdent struct{ Name string }
	EInt   struct{ Val string }
	EStr   struct{ Val string }
	EBin   struct {
		Op   string
		X, Y Expr
	}
	EUn struct {
		Op string
		X  Expr
	}
	ECall struct {
		Fun  Expr
		Args []Expr
		// binder for all/any: Args[0] is the body
		BindName string
		BindType string
	}
	ESel struct {
		X    Expr
		Name string
	}
	EIndex struct{ X, I Expr }
)

func (e *EIdent) String() string { return e.Name }
func (e *EInt) String() string   { return e.Val }
func (e *EStr) String() string   { return fmt.Sprintf("%q", e.Val) }
func (e *EBin) String() string   { return "(" + e.X.String() + " " + e.Op + " " + e.Y.String() + ")" }
func (e *EUn) String() string    { return e.Op + e.X.String() }
func (e *ECall) String() string {
	var as []string
	if e.BindName != "" {
		as = append(as, e.BindName+" "+e.BindType)
	}
	for _, a := range e.Args {
		as = append(as, a.String())
	}
	return e.Fun.String() + "(" + strings.Join(as, ", ") + ")"
}
func (e *ESel) String() string   { return e.X.String() + "." + e.Name }
func (e *EIndex) String() string { return e.X.String() + "[" + e.I.String() + "]" }

type tok struct {
	kind string // ident int string op eof
	text string
	pos  int
}

func lexExpr(src string) ([]tok, error) {
	var s scanner.Scanner
	fset := token.NewFileSet()
	file := fset.AddFile("", fset.Base(), len(src))
	var errs []string
	s.Init(file, []byte(src), func(pos token.Position, msg string) { errs = append(errs, msg) }, 0)
	var out []tok
	for {
		pos, t, lit := s.Scan()
		if t == token.EOF {
			break
		}
		off := int(pos) - file.Base()
		switch t {
		case token.IDENT:
			out = append(out, tok{"ident", lit, off})
		case token.INT:
			out = append(out, tok{"int", lit, off})
		case token.CHAR:
			out = append(out, tok{"int", fmt.Sprintf("%d", lit[1]), off})
		case token.STRING:
			v := lit[1 : len(lit)-1]
			if lit[0] == '"' {
				v = strings.NewReplacer(`\"`, `"`, `\\`, `\`, `\n`, "\n").Replace(v)
			}
			out = append(out, tok{"string", v, off})
		case token.SEMICOLON:
			if lit == "\n" {
				continue
			}
			out = append(out, tok{"op", ";", off})
		default:
			if t.IsKeyword() {
				out = append(out, tok{"ident", t.String(), off})
			} else {
				out = append(out, tok{"op", t.String(), off})
			}
		}
	}
	if len(errs) > 0 {
		return nil, fmt.Errorf("lex %q: %s", src, strings.Join(errs, "; "))
	}
	// merge "==" ">" into "==>" and "<=" "=" ">" into "<==>"
	var m []tok
	for i := 0; i < len(out); i++ {
		if i+2 < len(out) && out[i].text == "<=" && out[i+1].text == "=" && out[i+2].text == ">" &&
			out[i+1].pos == out[i].pos+2 && out[i+2].pos == out[i].pos+3 {
			m = append(m, tok{"op", "<==>", out[i].pos})
			i += 2
			continue
		}
		if i+1 < len(out) && out[i].text == "==" && out[i+1].text == ">" && out[i+1].pos == out[i].pos+2 {
			m = append(m, tok{"op", "==>", out[i].pos})
			i++
			continue
		}
		m = append(m, out[i])
	}
	m = append(m, tok{"eof", "", len(src)})
	return m, nil
}

type eparser struct {
	toks []tok
	i    int
	src  string
}

func parseExpr(src string) (e Expr, err error) {
	toks, err := lexExpr(src)
	if err != nil {
		return nil, err
	}
	p := &eparser{toks: toks, src: src}
	defer func() {
		if r := recover(); r != nil {
			err = fmt.Errorf("parse %q: %v", src, r)
		}
	}()
	e = p.expr(0)
	if p.peek().kind != "eof" {
		panic("unexpected " + p.peek().text)
	}
	return e, nil
}

func (p *eparser) peek() tok { return p.toks[p.i] }
func (p *eparser) next() tok { t := p.toks[p.i]; p.i++; return t }
func (p *eparser) expect(text string) {
	if p.peek().text != text {
		panic(fmt.Sprintf("expected %q, got %q", text, p.peek().text))
	}
	p.i++
}

var binPrec = map[string]int{
	"<==>": 1, "==>": 2, "||": 3, "&&": 4,
	"==": 5, "!=": 5, "<": 5, "<=": 5, ">": 5, ">=": 5,
	"+": 6, "-": 6, "|": 6, "^": 6,
	"*": 7, "/": 7, "%": 7, "<<": 7, ">>": 7, "&": 7, "&^": 7,
}

func (p *eparser) expr(minPrec int) Expr {
	lhs := p.unary()
	for {
		t := p.peek()
		prec, ok := binPrec[t.text]
		if t.kind != "op" || !ok || prec < minPrec {
			return lhs
		}
		p.next()
		var rhs Expr
		if t.text == "==>" {
			rhs = p.expr(prec) // right associative
		} else {
			rhs = p.expr(prec + 1)
		}
		lhs = &EBin{Op: t.text, X: lhs, Y: rhs}
	}
}

func (p *eparser) unary() Expr {
	t := p.peek()
	if t.kind == "op" && (t.text == "!" || t.text == "-" || t.text == "^") {
		p.next()
		return &EUn{Op: t.text, X: p.unary()}
	}
	return p.postfix(p.primary())
}

func (p *eparser) primary() Expr {
	t := p.next()
	switch t.kind {
	case "ident":
		return &EIdent{Name: t.text}
	case "int":
		return &EInt{Val: t.text}
	case "string":
		return &EStr{Val: t.text}
	case "op":
		if t.text == "(" {
			e := p.expr(0)
			p.expect(")")
			return e
		}
	}
	panic(fmt.Sprintf("unexpected token %q", t.text))
}

func (p *eparser) postfix(e Expr) Expr {
	for {
		t := p.peek()
		if t.kind != "op" {
			return e
		}
		switch t.text {
		case ".":
			p.next()
			n := p.next()
			if n.kind != "ident" {
				panic("selector expects identifier")
			}
			e = &ESel{X: e, Name: n.text}
		case "[":
			p.next()
			i := p.expr(0)
			p.expect("]")
			e = &EIndex{X: e, I: i}
		case "(":
			p.next()
			call := &ECall{Fun: e}
			if id, ok := e.(*EIdent); ok && (id.Name == "all" || id.Name == "any") {
				// binder: ident type ","
				n := p.next()
				if n.kind != "ident" {
					panic("binder expects identifier")
				}
				call.BindName = n.text
				call.BindType = p.typeText()
				p.expect(",")
			}
			for p.peek().text != ")" {
				call.Args = append(call.Args, p.expr(0))
				if p.peek().text == "," {
					p.next()
				} else {
					break
				}
			}
			p.expect(")")
			e = call
		default:
			return e
		}
	}
}

// typeText consumes tokens of a type expression up to a top-level comma.
func (p *eparser) typeText() string {
	var b strings.Builder
	depth := 0
	for {
		t := p.peek()
		if t.kind == "eof" {
			panic("unterminated type")
		}
		if depth == 0 && (t.text == "," || t.text == ")") && t.kind == "op" {
			break
		}
		if t.kind == "op" && (t.text == "[" || t.text == "(") {
			depth++
		}
		if t.kind == "op" && (t.text == "]" || t.text == ")") {
			depth--
		}
		b.WriteString(t.text)
		p.next()
	}
	return b.String()
}
