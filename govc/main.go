package main

import (
	"fmt"
	"golang.org/x/tools/go/packages"
	"golang.org/x/tools/go/ssa"
	"golang.org/x/tools/go/ssa/ssautil"
	"os"
)

func main() {
	cfg := &packages.Config{Mode: packages.LoadAllSyntax, Dir: "/repo", BuildFlags: []string{"-tags=verif"}}
	pkgs, err := packages.Load(cfg, os.Args[1:]...)
	if err != nil {
		panic(err)
	}
	prog, spkgs := ssautil.AllPackages(pkgs, ssa.InstantiateGenerics)
	prog.Build()
	for _, p := range spkgs {
		if f := p.Func("varintLen"); f != nil {
			f.WriteTo(os.Stdout)
		}
	}
	fmt.Println("ok")
}
