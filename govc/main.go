package main

import (
	"encoding/json"
	"flag"
	"fmt"
	"go/types"
	"os"
	"path/filepath"
	"sort"
	"strings"

	"golang.org/x/tools/go/packages"
	"golang.org/x/tools/go/ssa"
	"golang.org/x/tools/go/ssa/ssautil"
)

type Loaded struct {
	prog  *ssa.Program
	pkgs  []*packages.Package
	spkgs []*ssa.Package
	db    *ContractDB
	funcs map[string]*ssa.Function // by key
}

func repoDir() string {
	if d := os.Getenv("GOVC_REPO"); d != "" {
		return d
	}
	return "/repo"
}

func load(pkgPaths []string) (*Loaded, error) {
	cfg := &packages.Config{Mode: packages.LoadAllSyntax, Dir: repoDir(), BuildFlags: []string{"-tags=verif"},
		Env: append(os.Environ(), "GOFLAGS=-mod=mod", "GOPROXY=off")}
	pkgs, err := packages.Load(cfg, pkgPaths...)
	if err != nil {
		return nil, err
	}
	var errs []string
	packages.Visit(pkgs, nil, func(p *packages.Package) {
		for _, e := range p.Errors {
			errs = append(errs, e.Error())
		}
	})
	if len(errs) > 0 {
		return nil, fmt.Errorf("package errors (the tree does not compile with -tags verif):\n%s", strings.Join(errs, "\n"))
	}
	prog, spkgs := ssautil.AllPackages(pkgs, ssa.InstantiateGenerics|ssa.GlobalDebug)
	prog.Build()
	for _, p := range prog.AllPackages() {
		pkgByPath[p.Pkg.Path()] = p.Pkg
	}
	l := &Loaded{prog: prog, pkgs: pkgs, spkgs: spkgs, db: newDB(), funcs: map[string]*ssa.Function{}}
	// contract files of the listed packages and of every boxo package they import
	var cerr error
	var cps []*packages.Package
	packages.Visit(pkgs, nil, func(p *packages.Package) {
		if len(p.GoFiles) == 0 || !strings.HasPrefix(p.PkgPath, "github.com/ipfs/boxo") {
			return
		}
		cps = append(cps, p)
	})
	for _, p := range cps {
		m := map[string]string{}
		for _, file := range p.Syntax {
			for _, is := range file.Imports {
				if is.Name == nil || is.Name.Name == "_" || is.Name.Name == "." {
					continue
				}
				m[is.Name.Name] = strings.Trim(is.Path.Value, `"`)
			}
		}
		importAliases[p.PkgPath] = m
	}
	sort.Slice(cps, func(i, j int) bool { return cps[i].PkgPath < cps[j].PkgPath })
	for _, p := range cps {
		dir := filepath.Dir(p.GoFiles[0])
		if err := l.db.loadDir(dir, p.PkgPath); err != nil && cerr == nil {
			cerr = err
		}
	}
	if cerr != nil {
		return nil, cerr
	}
	for fn := range allFunctions(prog) {
		if fn.Pkg == nil && fn.Parent() == nil && fn.Origin() == nil {
			continue
		}
		k := funcKey(fn)
		if fn.Origin() != nil {
			// keep the generic origin for verification (type parameters become opaque sorts)
			continue
		}
		if _, ok := l.db.funcs[k]; ok {
			l.funcs[k] = fn
		}
	}
	return l, nil
}

var allFuncsCache = map[*ssa.Program]map[*ssa.Function]bool{}

// allFunctions enumerates every function and method declared in the loaded
// packages (including methods of types that are never converted to an
// interface, which ssautil.AllFunctions omits) and their anonymous functions.
func allFunctions(prog *ssa.Program) map[*ssa.Function]bool {
	if m, ok := allFuncsCache[prog]; ok {
		return m
	}
	out := map[*ssa.Function]bool{}
	var add func(fn *ssa.Function)
	add = func(fn *ssa.Function) {
		if fn == nil || out[fn] {
			return
		}
		out[fn] = true
		for _, a := range fn.AnonFuncs {
			add(a)
		}
	}
	for fn := range ssautil.AllFunctions(prog) {
		add(fn)
	}
	for _, p := range prog.AllPackages() {
		for _, m := range p.Members {
			switch m := m.(type) {
			case *ssa.Function:
				add(m)
			case *ssa.Type:
				if n, ok := m.Type().(*types.Named); ok && n.TypeParams().Len() > 0 {
					// methods of a generic type: the generic bodies (type parameters
					// are opaque sorts to the verifier)
					for i := 0; i < n.NumMethods(); i++ {
						add(prog.FuncValue(n.Method(i)))
					}
					continue
				}
				for _, t := range []types.Type{m.Type(), types.NewPointer(m.Type())} {
					ms := prog.MethodSets.MethodSet(t)
					for i := 0; i < ms.Len(); i++ {
						if _, isIface := m.Type().Underlying().(*types.Interface); isIface {
							continue
						}
						add(prog.MethodValue(ms.At(i)))
					}
				}
			}
		}
	}
	allFuncsCache[prog] = out
	return out
}

func (l *Loaded) findFunc(name string) *ssa.Function {
	for fn := range allFunctions(l.prog) {
		if fn.String() == name || shortFn(fn) == name || (fn.Pkg != nil && fn.Name() == name && inPkgs(l.pkgs, fn.Pkg.Pkg.Path())) {
			return fn
		}
	}
	return nil
}

func inPkgs(ps []*packages.Package, path string) bool {
	for _, p := range ps {
		if p.PkgPath == path {
			return true
		}
	}
	return false
}

func hasProp(fc *FuncContract, prop string) bool {
	if prop == "" {
		return true
	}
	for _, p := range fc.Props {
		if p == prop {
			return true
		}
	}
	return false
}

func main() {
	if len(os.Args) < 2 {
		fmt.Fprintln(os.Stderr, "usage: govc verify|list|check ...")
		os.Exit(2)
	}
	defer cleanupWork()
	switch os.Args[1] {
	case "verify":
		os.Exit(cmdVerify(os.Args[2:]))
	case "list":
		os.Exit(cmdList(os.Args[2:]))
	case "check":
		code := cmdCheck(os.Args[2:])
		cleanupWork()
		os.Exit(code)
	default:
		fmt.Fprintln(os.Stderr, "unknown command", os.Args[1])
		os.Exit(2)
	}
}

func splitPkgs(s string) []string {
	var out []string
	for _, p := range strings.Split(s, ",") {
		p = strings.TrimSpace(p)
		if p == "" {
			continue
		}
		if !strings.Contains(p, "github.com/") && !strings.HasPrefix(p, ".") {
			p = "github.com/ipfs/boxo/" + p
		}
		out = append(out, p)
	}
	return out
}

// verifyProp generates and discharges everything tagged with prop.
func verifyProp(l *Loaded, prop, only string, timeoutS int, all bool, dump string) []*FuncReport {
	var reps []*FuncReport
	var keys []string
	for _, k := range l.db.order {
		fc := l.db.funcs[k]
		if !fc.Verify || !hasProp(fc, prop) {
			continue
		}
		if only != "" && !strings.Contains(k, only) {
			continue
		}
		keys = append(keys, k)
	}
	var anyFn *ssa.Function
	for _, k := range keys {
		fc := l.db.funcs[k]
		fn := l.funcs[k]
		if fn == nil {
			reps = append(reps, &FuncReport{Func: k, Key: k, Error: "function under contract not found in /repo (renamed or removed?)"})
			continue
		}
		anyFn = fn
		reps = append(reps, generate(l.prog, l.db, fn, fc))
	}
	if only == "" && prop != "" {
		has := false
		for _, ax := range l.db.axioms {
			for _, p := range ax.Props {
				if ax.Lemma && p == prop {
					has = true
				}
			}
		}
		if has {
			if anyFn == nil {
				for _, fn := range l.funcs {
					anyFn = fn
					break
				}
			}
			if anyFn != nil {
				reps = append(reps, generateLemmas(l.prog, l.db, prop, anyFn))
			}
		}
	}
	if dump != "" {
		os.MkdirAll(dump, 0o755)
		for _, r := range reps {
			for _, o := range r.obls {
				if o.Kind == "error" {
					continue
				}
				os.WriteFile(filepath.Join(dump, sanitize(o.Name)+".smt2"), []byte(buildQuery(r.ctx, o)), 0o644)
			}
		}
	}
	discharge(reps, timeoutS, all)
	return reps
}

func cmdVerify(args []string) int {
	fs := flag.NewFlagSet("verify", flag.ExitOnError)
	pk := fs.String("pkgs", "", "comma separated package paths (relative to github.com/ipfs/boxo)")
	prop := fs.String("prop", "", "property tag")
	only := fs.String("func", "", "substring of function key")
	timeout := fs.Int("timeout", 10, "per obligation timeout (s)")
	all := fs.Bool("all", false, "run all solvers to completion and compare")
	dump := fs.String("dump", "", "directory to dump queries")
	jsonOut := fs.String("json", "", "write report json")
	verbose := fs.Bool("v", false, "verbose")
	mode := fs.String("lemma-arith", "int", "arith mode for lemmas")
	fs.Parse(args)
	lemmaMode = *mode
	l, err := load(splitPkgs(*pk))
	if err != nil {
		fmt.Fprintln(os.Stderr, "load:", err)
		return 2
	}
	reps := verifyProp(l, *prop, *only, *timeout, *all, *dump)
	bad := printReports(reps, *verbose)
	if *jsonOut != "" {
		b, _ := json.MarshalIndent(reps, "", " ")
		os.WriteFile(*jsonOut, b, 0o644)
	}
	if bad > 0 {
		return 1
	}
	return 0
}

func printReports(reps []*FuncReport, verbose bool) int {
	bad := 0
	for _, r := range reps {
		fmt.Printf("== %s [%s] gen %dms\n", r.Func, r.Arith, r.GenMs)
		if r.Error != "" {
			fmt.Printf("   ERROR: %s\n", r.Error)
			bad++
		}
		for _, o := range r.Obligations {
			mark := "ok  "
			switch o.Status {
			case "discharged", "covered":
			case "cover-unknown":
				mark = "?   "
			default:
				mark = "FAIL"
				bad++
			}
			fmt.Printf("   %s %-12s %-70s %s %dms %s\n", mark, o.Kind, o.Name, o.Backend, o.Ms, o.Solver)
			if mark == "FAIL" || verbose {
				if o.Detail != "" {
					fmt.Printf("        %s\n", strings.ReplaceAll(o.Detail, "\n", "\n        "))
				}
				if o.Model != "" {
					fmt.Printf("        model: %s\n", strings.ReplaceAll(firstLines(o.Model, 20), "\n", "\n        "))
				}
			}
		}
		if verbose {
			for _, n := range r.Notes {
				fmt.Printf("   note: %s\n", n)
			}
		}
	}
	return bad
}

func cmdList(args []string) int {
	fs := flag.NewFlagSet("list", flag.ExitOnError)
	pk := fs.String("pkgs", "", "packages")
	name := fs.String("func", "", "function name")
	fs.Parse(args)
	l, err := load(splitPkgs(*pk))
	if err != nil {
		fmt.Fprintln(os.Stderr, "load:", err)
		return 2
	}
	var fns []*ssa.Function
	for fn := range allFunctions(l.prog) {
		if fn.Pkg == nil && fn.Parent() == nil && fn.Origin() == nil {
			continue
		}
		p := pkgPathOf(fn)
		if !inPkgs(l.pkgs, p) {
			continue
		}
		if *name != "" && !strings.Contains(fn.String(), *name) {
			continue
		}
		fns = append(fns, fn)
	}
	sort.Slice(fns, func(i, j int) bool { return fns[i].String() < fns[j].String() })
	for _, fn := range fns {
		if *name == "" {
			fmt.Println(funcKey(fn))
			continue
		}
		c := newCtx(l.prog, l.db, fn, nil)
		f := c.newFrame(fn, nil)
		fmt.Printf("### %s   key=%s\n", fn.String(), funcKey(fn))
		for h, ord := range f.headers {
			fmt.Printf("  loop %d: header block %d (%s) at %s\n", ord, h.Index, h.Comment, f.pos(h.Instrs[len(h.Instrs)-1]))
		}
		fn.WriteTo(os.Stdout)
		for _, b := range fn.Blocks {
			for _, in := range b.Instrs {
				if m := f.siteOrd[in]; len(m) > 0 {
					var ss []string
					for s, k := range m {
						ss = append(ss, fmt.Sprintf("%s#%d", s, k))
					}
					sort.Strings(ss)
					fmt.Printf("  site b%d %s: %s\n", b.Index, f.pos(in), strings.Join(ss, " "))
				}
			}
		}
	}
	return 0
}
