package main

import (
	"fmt"
	"go/types"
	"strings"
)

// State is the symbolic heap at a program point.
type State struct {
	heap  map[string]Term
	epoch int
	// gepoch names untouched ghost (X|) components: it survives a havoc of
	// the program heap alone (`modifies heap`).
	gepoch int
	alloc  Term
}

func (s *State) clone() *State {
	n := &State{heap: make(map[string]Term, len(s.heap)), epoch: s.epoch, gepoch: s.gepoch, alloc: s.alloc}
	for k, v := range s.heap {
		n.heap[k] = v
	}
	return n
}

var epochCounter int

// comp registry ------------------------------------------------------------

func (c *Ctx) compName(key string) string {
	return "h_" + sanitize(strings.NewReplacer("github.com/ipfs/boxo/", "", "|", "_", "*", "p", "/", "_", "[", "_", "]", "_").Replace(key))
}

func (c *Ctx) regComp(key string, s Sort) {
	if old, ok := c.compSort[key]; ok {
		if old != s {
			panic(fmt.Sprintf("component %s registered with sorts %s and %s", key, old, s))
		}
		return
	}
	c.compSort[key] = s
}

// get returns the current term of a heap component.
func (c *Ctx) get(st *State, key string) Term {
	if t, ok := st.heap[key]; ok {
		return t
	}
	s, ok := c.compSort[key]
	if !ok {
		panic("unregistered heap component " + key)
	}
	ep := st.epoch
	if strings.HasPrefix(key, "X|") {
		ep = st.gepoch
	}
	return c.constNamed(fmt.Sprintf("%s@%d", c.compName(key), ep), s)
}

func (c *Ctx) set(st *State, key string, v Term) {
	st.heap[key] = c.define(c.compName(key), v)
}

func (c *Ctx) havocComp(st *State, key string) {
	s := c.compSort[key]
	st.heap[key] = c.fresh(c.compName(key)+"_hv", s)
}

func (c *Ctx) havocAll(st *State) {
	// An object this function has allocated and not yet stored, passed or captured anywhere
	// (a local variable held in a cell, a fresh struct) is out of reach of whatever is being
	// forgotten here - a callee that may write anything, a loop body - so its contents survive.
	type kept struct {
		comp string
		ref  Term
		val  Term
	}
	var keep []kept
	for _, k := range sortedKeys(c.unescaped) {
		pt := c.unescapedT[k]
		if pt == nil {
			continue
		}
		u := c.unescaped[k]
		for _, comp := range c.compsOfLoc(c.objLoc(u, pt)) {
			cur := c.get(st, comp)
			keep = append(keep, kept{comp, u, app(elemOfArr(cur.Sort), "select", cur, u)})
		}
	}
	epochCounter++
	st.epoch = epochCounter
	st.gepoch = epochCounter
	st.heap = map[string]Term{}
	na := c.fresh("alloc", SInt)
	c.assume(app(SBool, ">=", na, st.alloc), false)
	st.alloc = na
	for _, kp := range keep {
		cur := c.get(st, kp.comp)
		c.assume(tEq(app(elemOfArr(cur.Sort), "select", cur, kp.ref), kp.val), false)
	}
}

// havocHeap forgets the program heap but keeps ghost components and defer flags.
func (c *Ctx) havocHeap(st *State) {
	keep := map[string]Term{}
	for k, v := range st.heap {
		if strings.HasPrefix(k, "X|") || strings.HasPrefix(k, "D|") {
			keep[k] = v
		}
	}
	g := st.gepoch
	c.havocAll(st)
	st.gepoch = g
	st.heap = keep
}

// component keys -------------------------------------------------------------

func (c *Ctx) fieldComp(structT types.Type, i int) string {
	si := c.structOf(structT)
	tk := typeKey(structT)
	if _, ok := structT.(*types.Named); !ok {
		tk = typeKey(structT.Underlying())
	}
	fname := si.fields[i].name
	if fname == "_" {
		// blank fields (several per struct are legal, e.g. sync/atomic.Int64) are told apart by position
		fname = fmt.Sprintf("_%d", i)
	}
	key := "F|" + tk + "|" + fname
	c.regComp(key, arrSort(SInt, si.fields[i].sort))
	return key
}

func (c *Ctx) cellComp(t types.Type) string {
	key := "C|" + typeKey(t)
	c.regComp(key, arrSort(SInt, c.sortOf(t)))
	return key
}

func (c *Ctx) elemComp(elem types.Type) string {
	// element arrays are shared between types with the same sort (e.g. []byte / []uint8)
	key := "E|" + string(c.sortOf(elem))
	c.regComp(key, arrSort(SInt, arrSort(c.I(), c.sortOf(elem))))
	return key
}

func (c *Ctx) globalComp(pkg, name string, t types.Type) string {
	key := "G|" + pkg + "." + name
	c.regComp(key, c.sortOf(t))
	return key
}

func (c *Ctx) mapComps(m *types.Map) (has, val, ln string) {
	ks, vs := c.sortOf(m.Key()), c.sortOf(m.Elem())
	id := string(ks) + "|" + string(vs)
	has, val, ln = "MH|"+id, "MV|"+id, "ML|"+id
	c.regComp(has, arrSort(SInt, arrSort(ks, SBool)))
	c.regComp(val, arrSort(SInt, arrSort(ks, vs)))
	c.regComp(ln, arrSort(SInt, c.I()))
	return
}

func (c *Ctx) ghostComp(name string, s Sort) string {
	key := "X|" + name
	c.regComp(key, s)
	return key
}

// Loc is a generation-time description of an addressable location.
type Loc struct {
	typ  types.Type // pointee type
	root int
	base Term
	idx  Term // element index relative to off (rootElem)
	off  Term // slice offset (rootElem)
	comp string
	path []pathStep
}

// fieldAddr is the address of field `comp` of object `base`: an injective
// function of (object, field), positive.
func (c *Ctx) fieldAddr(base Term, comp string) Term {
	if c.compIDs == nil {
		c.compIDs = map[string]int{}
	}
	id, ok := c.compIDs[comp]
	if !ok {
		id = len(c.compIDs) + 1
		c.compIDs[comp] = id
	}
	if !c.declared["addr_field"] {
		c.declare("addr_field", "(declare-fun addr_field (Int Int) Int)")
		c.declare("addr_field_obj", "(declare-fun addr_field_obj (Int) Int)")
		c.declare("addr_field_id", "(declare-fun addr_field_id (Int) Int)")
	}
	t := app(SInt, "addr_field", base, intLit(int64(id)))
	// ground instance of: addr_field is positive and injective in (object, field)
	c.assume(tAnd(app(SBool, "<", intLit(0), t), tEq(app(SInt, "addr_field_obj", t), base), tEq(app(SInt, "addr_field_id", t), intLit(int64(id)))), false)
	return t
}

// slElem reads element j of a slice view (backing array contents A, offset o).
// It is an uninterpreted function with the defining axiom
//   sl_elem(A, o, j) == select(A, o + j)
// so that quantified facts about slice elements have an arithmetic-free
// trigger (e-matching cannot match inside (+ o j)).
func (c *Ctx) slElem(A, o, j Term) Term {
	es := elemOfArr(A.Sort)
	name := "sl_elem_" + sanitize(string(es))
	if !c.declared[name] {
		c.declare(name, fmt.Sprintf("(declare-fun %s (%s %s %s) %s)", name, A.Sort, c.I(), c.I(), es))
		plus := "+"
		if c.mode == "bv" {
			plus = "bvadd"
		}
		ax := fmt.Sprintf("(forall ((A!e %s) (o!e %s) (j!e %s)) (! (= (%s A!e o!e j!e) (select A!e (%s o!e j!e))) :pattern ((%s A!e o!e j!e))))",
			A.Sort, c.I(), c.I(), name, plus, name)
		// the axiom must be visible to every obligation: insert it at the front
		c.facts = append([]Fact{{seq: 0, text: ax}}, c.facts...)
	}
	return app(es, name, A, o, j)
}

const (
	rootObj = iota // whole heap object addressed by a reference (struct: fields in separate components)
	rootField
	rootCell
	rootElem
	rootGlobal
	rootOpaque
)

type pathStep struct {
	field int  // struct field index, or -1 for array index
	idx   Term // array index
	typ   types.Type
}

func (c *Ctx) objLoc(p Term, pointee types.Type) *Loc {
	if _, ok := pointee.Underlying().(*types.Struct); ok {
		return &Loc{typ: pointee, root: rootObj, base: p}
	}
	return &Loc{typ: pointee, root: rootCell, base: p, comp: c.cellComp(pointee)}
}

func (c *Ctx) fieldLoc(l *Loc, i int) *Loc {
	st, ok := l.typ.Underlying().(*types.Struct)
	if !ok {
		return &Loc{root: rootOpaque, typ: types.Typ[types.Int]}
	}
	ft := st.Field(i).Type()
	if l.root == rootObj {
		return &Loc{typ: ft, root: rootField, base: l.base, comp: c.fieldComp(l.typ, i)}
	}
	n := *l
	n.path = append(append([]pathStep{}, l.path...), pathStep{field: i, typ: l.typ})
	n.typ = ft
	return &n
}

func (c *Ctx) indexLoc(l *Loc, idx Term) *Loc {
	at, ok := l.typ.Underlying().(*types.Array)
	if !ok {
		return &Loc{root: rootOpaque, typ: types.Typ[types.Int]}
	}
	n := *l
	n.path = append(append([]pathStep{}, l.path...), pathStep{field: -1, idx: idx, typ: l.typ})
	n.typ = at.Elem()
	return &n
}

func (c *Ctx) getPath(v Term, path []pathStep) Term {
	for _, p := range path {
		if p.field >= 0 {
			si := c.structOf(p.typ)
			v = c.getField(si, v, p.field)
		} else {
			at := p.typ.Underlying().(*types.Array)
			v = tSelect(v, p.idx, c.sortOf(at.Elem()))
		}
	}
	return v
}

func (c *Ctx) setPath(v Term, path []pathStep, nv Term) Term {
	if len(path) == 0 {
		return nv
	}
	p := path[0]
	if p.field >= 0 {
		si := c.structOf(p.typ)
		inner := c.getField(si, v, p.field)
		return c.setField(si, v, p.field, c.setPath(inner, path[1:], nv))
	}
	at := p.typ.Underlying().(*types.Array)
	inner := tSelect(v, p.idx, c.sortOf(at.Elem()))
	return tStore(v, p.idx, c.setPath(inner, path[1:], nv))
}

func (c *Ctx) load(st *State, l *Loc) Term {
	switch l.root {
	case rootObj:
		si := c.structOf(l.typ)
		vals := make([]Term, len(si.fields))
		for i, f := range si.fields {
			vals[i] = tSelect(c.get(st, c.fieldComp(l.typ, i)), l.base, f.sort)
		}
		return c.mkStruct(si, vals)
	case rootField, rootCell:
		s := c.compSort[l.comp]
		_ = s
		root := app(elemOfArr(c.compSort[l.comp]), "select", c.get(st, l.comp), l.base)
		return c.getPath(root, l.path)
	case rootElem:
		inner := app(elemOfArr(c.compSort[l.comp]), "select", c.get(st, l.comp), l.base)
		root := c.slElem(inner, l.off, l.idx)
		return c.getPath(root, l.path)
	case rootGlobal:
		return c.getPath(c.get(st, l.comp), l.path)
	}
	c.note("load through untracked pointer (havoc)")
	return c.fresh("opaque_load", c.sortOf(l.typ))
}

func (c *Ctx) store(st *State, l *Loc, v Term) {
	switch l.root {
	case rootObj:
		si := c.structOf(l.typ)
		for i := range si.fields {
			k := c.fieldComp(l.typ, i)
			c.set(st, k, tStore(c.get(st, k), l.base, c.getField(si, v, i)))
		}
	case rootField, rootCell:
		cur := c.get(st, l.comp)
		if len(l.path) == 0 {
			c.set(st, l.comp, tStore(cur, l.base, v))
			return
		}
		root := app(elemOfArr(cur.Sort), "select", cur, l.base)
		c.set(st, l.comp, tStore(cur, l.base, c.setPath(root, l.path, v)))
	case rootElem:
		cur := c.get(st, l.comp)
		inner := app(elemOfArr(cur.Sort), "select", cur, l.base)
		nv := v
		if len(l.path) > 0 {
			root := c.slElem(inner, l.off, l.idx)
			nv = c.setPath(root, l.path, v)
		}
		c.set(st, l.comp, tStore(cur, l.base, tStore(inner, c.iadd(l.off, l.idx), nv)))
	case rootGlobal:
		cur := c.get(st, l.comp)
		c.set(st, l.comp, c.setPath(cur, l.path, v))
	default:
		c.note("store through untracked pointer (ignored target; heap havocked)")
		c.havocAll(st)
	}
}

// elemOfArr parses "(Array K V)" and returns V.
func elemOfArr(s Sort) Sort {
	str := string(s)
	if !strings.HasPrefix(str, "(Array ") {
		panic("not an array sort: " + str)
	}
	body := str[len("(Array ") : len(str)-1]
	// split first sort
	depth := 0
	for i, r := range body {
		switch r {
		case '(':
			depth++
		case ')':
			depth--
		case ' ':
			if depth == 0 {
				return Sort(body[i+1:])
			}
		}
	}
	panic("bad array sort " + str)
}

// compsOfLoc lists the components a store through l may write.
func (c *Ctx) compsOfLoc(l *Loc) []string {
	switch l.root {
	case rootObj:
		si := c.structOf(l.typ)
		var ks []string
		for i := range si.fields {
			ks = append(ks, c.fieldComp(l.typ, i))
		}
		return ks
	case rootField, rootCell, rootElem, rootGlobal:
		return []string{l.comp}
	}
	return nil
}

// ownCode reports whether obligations about the code of this frame belong to
// the function under verification: its own body and its closures, not the
// bodies of other functions expanded at call sites (those are checked when
// they are verified themselves).
func (f *Frame) ownCode() bool {
	for fr := f; fr != nil; fr = fr.parent {
		if fr.depth == 0 {
			return true
		}
		if fr.fn.Parent() == nil {
			return false
		}
	}
	return true
}
