package main

import (
	"fmt"
	"go/token"
	"go/types"
	"strings"

	"golang.org/x/tools/go/ssa"
)

func (f *Frame) setEdge(p, s *ssa.BasicBlock, cond Term, st *State) {
	key := [2]int{p.Index, s.Index}
	if old, ok := f.edge[key]; ok {
		cond = tOr(old, cond)
	}
	f.edge[key] = cond
	if f.isBackEdge(p, s) {
		f.backEdge(p, s, st, cond)
	}
}

func (f *Frame) execInstr(in ssa.Instruction, st *State, reach Term) {
	c := f.c
	switch in := in.(type) {
	case *ssa.DebugRef:
	case *ssa.Alloc:
		r := c.define(f.name(in.Name()), app(SInt, "+", st.alloc, intLit(1)))
		st.alloc = r
		f.vals[in] = r
		pt := in.Type().Underlying().(*types.Pointer).Elem()
		c.store(st, c.objLoc(r, pt), c.zero(pt))
		c.initGhosts(st, r, pt)
	case *ssa.BinOp:
		f.vals[in] = c.define(f.name(in.Name()), f.binop(in, reach))
	case *ssa.UnOp:
		f.unop(in, st, reach)
	case *ssa.Call:
		res := f.doCall(in, st, reach)
		f.bindResults(in, in.Call.Signature().Results(), res)
	case *ssa.ChangeType:
		v := f.val(in.X)
		if v.Sort != c.sortOf(in.Type()) {
			c.note("ChangeType between different sorts (havoc)")
			v = c.fresh("ct", c.sortOf(in.Type()))
		}
		f.vals[in] = v
		if cl := f.closures[in.X]; cl != nil {
			f.closures[in] = cl
		}
	case *ssa.Convert:
		f.vals[in] = c.define(f.name(in.Name()), f.convert(in, in.X, in.Type(), reach))
	case *ssa.MultiConvert:
		c.note("MultiConvert (havoc)")
		f.vals[in] = c.fresh(in.Name(), c.sortOf(in.Type()))
	case *ssa.ChangeInterface:
		f.vals[in] = f.val(in.X)
	case *ssa.MakeInterface:
		f.vals[in] = c.define(f.name(in.Name()), c.box(f.val(in.X), in.X.Type()))
	case *ssa.MakeClosure:
		t := c.fresh(f.name(in.Name()+"_closure"), SInt)
		c.assume(tNot(tEq(t, intLit(0))), false)
		f.vals[in] = t
		f.closures[in] = &closure{fn: in.Fn.(*ssa.Function), bindings: in.Bindings, frame: f}
	case *ssa.MakeMap:
		r := c.define(f.name(in.Name()), app(SInt, "+", st.alloc, intLit(1)))
		st.alloc = r
		f.vals[in] = r
		mt := in.Type().Underlying().(*types.Map)
		has, _, ln := c.mapComps(mt)
		hs := elemOfArr(c.compSort[has])
		c.set(st, has, tStore(c.get(st, has), r, T(hs, fmt.Sprintf("((as const %s) false)", hs))))
		c.set(st, ln, tStore(c.get(st, ln), r, c.intConst(0, c.I())))
	case *ssa.MakeChan:
		r := c.define(f.name(in.Name()), app(SInt, "+", st.alloc, intLit(1)))
		st.alloc = r
		f.vals[in] = r
	case *ssa.MakeSlice:
		r := c.define(f.name(in.Name()+"_arr"), app(SInt, "+", st.alloc, intLit(1)))
		st.alloc = r
		ln, cp := f.intAs(in.Len, c.I()), f.intAs(in.Cap, c.I())
		et := in.Type().Underlying().(*types.Slice).Elem()
		comp := c.elemComp(et)
		as := elemOfArr(c.compSort[comp])
		c.set(st, comp, tStore(c.get(st, comp), r, c.constArray(as, c.zero(et))))
		f.vals[in] = c.define(f.name(in.Name()), app(SSlice, "mk_Slice", r, c.intConst(0, c.I()), ln, cp))
		if c.safety["slice"] {
			c.oblige("nopanic", f.oname("nopanic:makeslice", in), reach,
				tAnd(c.ile(c.intConst(0, c.I()), ln), c.ile(ln, cp)), f.pos(in))
		}
		c.assume(tImp(reach, tAnd(c.ile(c.intConst(0, c.I()), ln), c.ile(ln, cp))), false)
	case *ssa.Slice:
		f.sliceOp(in, st, reach)
	case *ssa.SliceToArrayPointer:
		c.note("SliceToArrayPointer (havoc)")
		f.vals[in] = c.fresh(in.Name(), SInt)
	case *ssa.FieldAddr:
		base := f.locOf(in.X)
		if c.safety["nil"] && base.root == rootObj {
			c.oblige("nopanic", f.oname("nopanic:nil", in), reach, tNot(tEq(base.base, intLit(0))), f.pos(in))
		}
		f.locs[in] = c.fieldLoc(base, in.Field)
	case *ssa.Field:
		x := f.val(in.X)
		si := c.structOf(in.X.Type())
		f.vals[in] = c.getField(si, x, in.Field)
		if tup, ok := f.closures[in]; ok {
			_ = tup
		}
	case *ssa.IndexAddr:
		f.locs[in] = f.indexAddrLoc(in, st, reach)
	case *ssa.Index:
		x := f.val(in.X)
		idx := f.intAs(in.Index, c.I())
		switch xt := in.X.Type().Underlying().(type) {
		case *types.Array:
			f.boundsCheck(in, reach, idx, c.intConst(xt.Len(), c.I()))
			f.vals[in] = tSelect(x, idx, c.sortOf(xt.Elem()))
		default:
			// string (typeparams core type)
			f.boundsCheck(in, reach, idx, app(c.I(), "str_len", x))
			f.vals[in] = c.strAt(x, idx)
		}
	case *ssa.Lookup:
		f.lookup(in, st, reach)
	case *ssa.Select:
		{
			var sent []Val
			for _, s := range in.States {
				if s.Dir == types.SendOnly {
					sent = append(sent, f.valTyped(s.Send))
				}
			}
			if len(sent) > 0 {
				f.checkSites(in, st, reach, sent)
			}
			f.recordReached(in, reach)
		}
		c.note("select statement: nondeterministic choice, received values havocked")
		tup := in.Type().(*types.Tuple)
		var res []Term
		for i := 0; i < tup.Len(); i++ {
			v := c.fresh(f.name(fmt.Sprintf("%s_%d", in.Name(), i)), c.sortOf(tup.At(i).Type()))
			c.assume(c.valueInv(v, tup.At(i).Type(), st), false)
			res = append(res, v)
		}
		n := len(in.States)
		lo := 0
		if !in.Blocking {
			lo = -1
		}
		c.assume(tAnd(c.ile(c.intConst(int64(lo), c.I()), res[0]), c.ilt(res[0], c.intConst(int64(n), c.I()))), false)
		f.tuples[in] = res
	case *ssa.Range:
		f.vals[in] = intLit(0)
	case *ssa.Next:
		f.next(in, st, reach)
	case *ssa.TypeAssert:
		f.typeAssert(in, st, reach)
	case *ssa.Extract:
		tup, ok := f.tuples[in.Tuple]
		if !ok {
			panic(fmt.Sprintf("%s: extract from unknown tuple %s", f.fn, in.Tuple.Name()))
		}
		f.vals[in] = tup[in.Index]
		if call, ok := in.Tuple.(*ssa.Call); ok {
			_ = call
		}
	case *ssa.Store:
		v := f.val(in.Val)
		l := f.locOf(in.Addr)
		f.checkSites(in, st, reach, []Val{{T: v, GT: in.Val.Type()}})
		c.store(st, l, v)
		// remember closures stored into cells (e.g. func-typed fields set then called)
		if cl := f.closures[in.Val]; cl != nil {
			f.closures[in.Addr] = cl
		}
	case *ssa.MapUpdate:
		m := f.val(in.Map)
		mt := in.Map.Type().Underlying().(*types.Map)
		has, val, ln := c.mapComps(mt)
		k, v := f.val(in.Key), f.val(in.Value)
		hcur, vcur, lcur := c.get(st, has), c.get(st, val), c.get(st, ln)
		hin := app(elemOfArr(hcur.Sort), "select", hcur, m)
		vin := app(elemOfArr(vcur.Sort), "select", vcur, m)
		was := tSelect(hin, k, SBool)
		c.set(st, has, tStore(hcur, m, tStore(hin, k, tTrue)))
		c.set(st, val, tStore(vcur, m, tStore(vin, k, v)))
		l0 := tSelect(lcur, m, c.I())
		c.set(st, ln, tStore(lcur, m, tIte(was, l0, c.iadd(l0, c.intConst(1, c.I())))))
	case *ssa.Send:
		f.checkSites(in, st, reach, []Val{f.valTyped(in.X)})
		f.recordReached(in, reach)
	case *ssa.Go:
		var args []Val
		for _, a := range in.Call.Args {
			args = append(args, f.valTyped(a))
		}
		f.checkSites(in, st, reach, args)
		c.note("go statement: spawned function not executed here")
	case *ssa.Defer:
		key := f.deferKey(in)
		st.heap[key] = tTrue
	case *ssa.RunDefers:
		f.runDefers(in, st, reach)
	case *ssa.Return:
		var res []Term
		var vals []Val
		for _, r := range in.Results {
			res = append(res, f.val(r))
			vals = append(vals, f.valTyped(r))
		}
		f.checkSites(in, st, reach, vals)
		f.exits = append(f.exits, exitRec{st: st.clone(), reach: reach, results: res})
		f.out[in.Block()] = &blockOut{st: st, reach: reach}
	case *ssa.Jump:
		b := in.Block()
		f.out[b] = &blockOut{st: st, reach: reach}
		f.setEdge(b, b.Succs[0], reach, st)
	case *ssa.If:
		b := in.Block()
		cond := f.val(in.Cond)
		f.out[b] = &blockOut{st: st, reach: reach}
		f.setEdge(b, b.Succs[0], tAnd(reach, cond), st)
		f.setEdge(b, b.Succs[1], tAnd(reach, tNot(cond)), st)
	case *ssa.Panic:
		if c.safety["panic"] {
			c.oblige("nopanic", f.oname("nopanic:explicit", in), reach, tFalse, f.pos(in))
		}
		f.out[in.Block()] = &blockOut{st: st, reach: reach}
	default:
		panic(fmt.Sprintf("%s: unsupported instruction %T", f.fn, in))
	}
}

// constArray is the array holding v everywhere. cvc5 only accepts literal
// values in (as const ...), so other element values get a fresh array with a
// quantified definition.
func (c *Ctx) constArray(as Sort, v Term) Term {
	lit := !strings.ContainsAny(v.S, "!") && !strings.Contains(v.S, "str_empty") && !strings.Contains(v.S, "nil_iface") &&
		!strings.Contains(v.S, "zero_") && !strings.Contains(v.S, "strlit")
	if lit {
		return T(as, fmt.Sprintf("((as const %s) %s)", as, v.S))
	}
	a := c.fresh("constarr", as)
	c.nfresh++
	i := fmt.Sprintf("i!q%d", c.nfresh)
	c.assume(T(SBool, fmt.Sprintf("(forall ((%s %s)) (= (select %s %s) %s))", i, keyOfArr(as), a.S, i, v.S)), false)
	return a
}

func (f *Frame) bindResults(v ssa.Value, sig *types.Tuple, res []Term) {
	switch sig.Len() {
	case 0:
	case 1:
		f.vals[v] = res[0]
	default:
		f.tuples[v] = res
	}
}

func (f *Frame) unop(in *ssa.UnOp, st *State, reach Term) {
	c := f.c
	switch in.Op {
	case token.MUL:
		// load
		if g, ok := in.X.(*ssa.Global); ok {
			pkg := ""
			if g.Pkg != nil {
				pkg = g.Pkg.Pkg.Path()
			}
			f.vals[in] = c.loadGlobal(st, pkg, g.Name(), in.Type())
			return
		}
		l := f.locOf(in.X)
		if c.safety["nil"] && (l.root == rootObj || l.root == rootCell) {
			c.oblige("nopanic", f.oname("nopanic:nil", in), reach, tNot(tEq(l.base, intLit(0))), f.pos(in))
		}
		v := c.define(f.name(in.Name()), c.load(st, l))
		f.vals[in] = v
		c.assume(c.valueInv(v, in.Type(), st), false)
		if cl := f.closures[in.X]; cl != nil {
			f.closures[in] = cl
		}
	case token.NOT:
		f.vals[in] = tNot(f.val(in.X))
	case token.SUB:
		x := f.val(in.X)
		if _, ok := x.Sort.isBV(); ok {
			f.vals[in] = app(x.Sort, "bvneg", x)
		} else if x.Sort == SInt {
			r := app(SInt, "-", x)
			if c.checkOvf && f.ownCode() {
				c.oblige("overflow", f.oname("overflow", in), reach, c.typeRange(r, in.Type()), f.pos(in))
			}
			f.vals[in] = r
		} else {
			c.note("negation of non-integer (havoc)")
			f.vals[in] = c.fresh(in.Name(), x.Sort)
		}
	case token.XOR:
		x := f.val(in.X)
		if _, ok := x.Sort.isBV(); ok {
			f.vals[in] = app(x.Sort, "bvnot", x)
		} else {
			c.note("bitwise complement in int mode (havoc)")
			f.vals[in] = c.fresh(in.Name(), x.Sort)
		}
	case token.ARROW:
		c.note("channel receive: received value havocked")
		f.recordReached(in, reach)
		// ghost chanPending(ch): number of items the (finite, eventually closed)
		// stream behind ch still delivers; a receive takes one, ok is false exactly
		// when none is left
		var pendOld Term
		var pendKey string
		if sf := c.db.specs["chanPending"]; sf != nil && sf.Ghost && len(sf.Params) == 1 {
			pendKey = c.ghostKey(sf)
			arr := c.get(st, pendKey)
			if elemOfArr(arr.Sort) == c.I() {
				pendOld = app(c.I(), "select", arr, f.val(in.X))
				c.assume(tImp(reach, c.ile(c.intConst(0, c.I()), pendOld)), false)
				c.assumed["channels with a chanPending ghost deliver a finite stream and are closed at its end"] = true
			}
		}
		if in.CommaOk {
			tup := in.Type().(*types.Tuple)
			v := c.fresh(f.name(in.Name()+"_v"), c.sortOf(tup.At(0).Type()))
			c.assume(c.valueInv(v, tup.At(0).Type(), st), false)
			ok := c.fresh(f.name(in.Name()+"_ok"), SBool)
			if pendOld.S != "" {
				z := c.intConst(0, c.I())
				c.assume(tEq(ok, c.ilt(z, pendOld)), false)
				arr := c.get(st, pendKey)
				c.set(st, pendKey, tStore(arr, f.val(in.X), tIte(ok, c.isub(pendOld, c.intConst(1, c.I())), z)))
			}
			f.tuples[in] = []Term{v, ok}
		} else {
			v := c.fresh(f.name(in.Name()), c.sortOf(in.Type()))
			c.assume(c.valueInv(v, in.Type(), st), false)
			f.vals[in] = v
		}
	default:
		panic("unsupported unop " + in.Op.String())
	}
}

func (f *Frame) sliceOp(in *ssa.Slice, st *State, reach Term) {
	c := f.c
	z := c.intConst(0, c.I())
	lo := z
	if in.Low != nil {
		lo = f.intAs(in.Low, c.I())
	}
	switch xt := in.X.Type().Underlying().(type) {
	case *types.Slice:
		x := f.val(in.X)
		hi := app(c.I(), "sl_len", x)
		if in.High != nil {
			hi = f.intAs(in.High, c.I())
		}
		cp := app(c.I(), "sl_cap", x)
		mx := cp
		if in.Max != nil {
			mx = f.intAs(in.Max, c.I())
		}
		ok := tAnd(c.ile(z, lo), c.ile(lo, hi), c.ile(hi, mx), c.ile(mx, cp))
		if c.safety["slice"] {
			c.oblige("nopanic", f.oname("nopanic:slice", in), reach, ok, f.pos(in))
		}
		c.assume(tImp(reach, ok), false)
		f.vals[in] = c.define(f.name(in.Name()), app(SSlice, "mk_Slice", app(SInt, "sl_arr", x), c.iadd(app(c.I(), "sl_off", x), lo), c.isub(hi, lo), c.isub(mx, lo)))
	case *types.Basic: // string
		x := f.val(in.X)
		hi := app(c.I(), "str_len", x)
		if in.High != nil {
			hi = f.intAs(in.High, c.I())
		}
		ok := tAnd(c.ile(z, lo), c.ile(lo, hi), c.ile(hi, app(c.I(), "str_len", x)))
		if c.safety["slice"] {
			c.oblige("nopanic", f.oname("nopanic:slice", in), reach, ok, f.pos(in))
		}
		c.assume(tImp(reach, ok), false)
		c.declare("str_sub", fmt.Sprintf("(declare-fun str_sub (Str %s %s) Str)", c.I(), c.I()))
		r := app(SStr, "str_sub", x, lo, hi)
		c.assume(tEq(app(c.I(), "str_len", r), c.isub(hi, lo)), false)
		c.assume(tImp(tAnd(tEq(lo, z), tEq(hi, app(c.I(), "str_len", x))), tEq(r, x)), false)
		f.vals[in] = r
	case *types.Pointer: // pointer to array
		at := xt.Elem().Underlying().(*types.Array)
		n := c.intConst(at.Len(), c.I())
		hi := n
		if in.High != nil {
			hi = f.intAs(in.High, c.I())
		}
		l := f.locOf(in.X)
		ok := tAnd(c.ile(z, lo), c.ile(lo, hi), c.ile(hi, n))
		if c.safety["slice"] {
			c.oblige("nopanic", f.oname("nopanic:slice", in), reach, ok, f.pos(in))
		}
		c.assume(tImp(reach, ok), false)
		// The array object doubles as the backing array of the slice: move its
		// contents into the element component under the same reference.
		if l.root == rootCell && len(l.path) == 0 {
			comp := c.elemComp(at.Elem())
			cur := c.get(st, comp)
			c.set(st, comp, tStore(cur, l.base, c.load(st, l)))
			f.vals[in] = c.define(f.name(in.Name()), app(SSlice, "mk_Slice", l.base, lo, c.isub(hi, lo), c.isub(n, lo)))
			return
		}
		c.note("slice of array embedded in a struct (fresh backing array)")
		r := c.define(f.name(in.Name()+"_arr"), app(SInt, "+", st.alloc, intLit(1)))
		st.alloc = r
		f.vals[in] = c.define(f.name(in.Name()), app(SSlice, "mk_Slice", r, lo, c.isub(hi, lo), c.isub(n, lo)))
	default:
		c.note("slice of unsupported operand (havoc)")
		f.vals[in] = c.fresh(in.Name(), c.sortOf(in.Type()))
	}
}

func (f *Frame) lookup(in *ssa.Lookup, st *State, reach Term) {
	c := f.c
	switch xt := in.X.Type().Underlying().(type) {
	case *types.Map:
		m, k := f.val(in.X), f.val(in.Index)
		has, val, _ := c.mapComps(xt)
		hin := app(elemOfArr(c.compSort[has]), "select", c.get(st, has), m)
		vin := app(elemOfArr(c.compSort[val]), "select", c.get(st, val), m)
		ok := tAnd(tNot(tEq(m, intLit(0))), tSelect(hin, k, SBool))
		v := tIte(ok, tSelect(vin, k, c.sortOf(xt.Elem())), c.zero(xt.Elem()))
		v = c.define(f.name(in.Name()), v)
		c.assume(tImp(ok, c.valueInv(v, xt.Elem(), st)), false)
		if in.CommaOk {
			f.tuples[in] = []Term{v, c.define(f.name(in.Name()+"_ok"), ok)}
		} else {
			f.vals[in] = v
		}
	default: // string index
		x := f.val(in.X)
		idx := f.intAs(in.Index, c.I())
		f.boundsCheck(in, reach, idx, app(c.I(), "str_len", x))
		f.vals[in] = c.strAt(x, idx)
	}
}

func (f *Frame) next(in *ssa.Next, st *State, reach Term) {
	c := f.c
	tup := in.Type().(*types.Tuple)
	ok := c.fresh(f.name(in.Name()+"_ok"), SBool)
	res := []Term{ok}
	rng, _ := in.Iter.(*ssa.Range)
	if !in.IsString && rng != nil {
		if mt, isMap := rng.X.Type().Underlying().(*types.Map); isMap {
			m := f.val(rng.X)
			has, val, _ := c.mapComps(mt)
			k := c.fresh(f.name(in.Name()+"_k"), c.sortOf(mt.Key()))
			hin := app(elemOfArr(c.compSort[has]), "select", c.get(st, has), m)
			vin := app(elemOfArr(c.compSort[val]), "select", c.get(st, val), m)
			// (a nil map has no entries to enumerate)
			c.assume(tImp(ok, tAnd(tNot(tEq(m, intLit(0))), tSelect(hin, k, SBool), c.valueInv(k, mt.Key(), st))), false)
			v := c.define(f.name(in.Name()+"_v"), tSelect(vin, k, c.sortOf(mt.Elem())))
			c.assume(c.valueInv(v, mt.Elem(), st), false)
			c.note("map range: arbitrary enumeration of present keys")
			f.tuples[in] = []Term{ok, k, v}
			return
		}
	}
	c.note("range over string/other: iteration values havocked")
	for i := 1; i < tup.Len(); i++ {
		v := c.fresh(f.name(fmt.Sprintf("%s_%d", in.Name(), i)), c.sortOf(tup.At(i).Type()))
		c.assume(c.valueInv(v, tup.At(i).Type(), st), false)
		res = append(res, v)
	}
	f.tuples[in] = res
}

func (f *Frame) typeAssert(in *ssa.TypeAssert, st *State, reach Term) {
	c := f.c
	x := f.val(in.X)
	var ok, v Term
	if _, isIface := in.AssertedType.Underlying().(*types.Interface); isIface {
		nm := "implements_" + sanitize(typeKey(in.AssertedType))
		c.declare(nm, fmt.Sprintf("(declare-fun %s (Int) Bool)", nm))
		ok = tAnd(tNot(tEq(x, T(SIface, "nil_iface"))), app(SBool, nm, app(SInt, "typeof", x)))
		v = x
	} else {
		ok = tEq(app(SInt, "typeof", x), c.typeTag(in.AssertedType))
		v = c.unbox(x, in.AssertedType)
	}
	if in.CommaOk {
		okv := c.define(f.name(in.Name()+"_ok"), ok)
		zv := tIte(okv, v, c.zero(in.AssertedType))
		f.tuples[in] = []Term{c.define(f.name(in.Name()+"_v"), zv), okv}
		return
	}
	if c.safety["assert"] {
		c.oblige("nopanic", f.oname("nopanic:typeassert", in), reach, ok, f.pos(in))
	}
	c.assume(tImp(reach, ok), false)
	f.vals[in] = c.define(f.name(in.Name()), v)
}

// runDefers executes the deferred calls registered on this path, last first.
func (f *Frame) runDefers(in *ssa.RunDefers, st *State, reach Term) {
	c := f.c
	var ds []*ssa.Defer
	for _, b := range f.topo() {
		for _, i := range b.Instrs {
			if d, ok := i.(*ssa.Defer); ok {
				ds = append(ds, d)
			}
		}
	}
	for i := len(ds) - 1; i >= 0; i-- {
		d := ds[i]
		flag := st.heap[f.deferKey(d)]
		if flag.S == "false" {
			continue
		}
		if _, ok := f.out[d.Block()]; !ok && d.Block() != in.Block() {
			continue // defer in a block never executed
		}
		if flag.S == "true" {
			f.doCall(d, st, reach)
			continue
		}
		alt := st.clone()
		f.doCall(d, alt, tAnd(reach, flag))
		// merge alt into st under flag
		keys := map[string]bool{}
		for k := range alt.heap {
			keys[k] = true
		}
		for k := range st.heap {
			keys[k] = true
		}
		if alt.epoch != st.epoch || alt.gepoch != st.gepoch {
			for k := range c.compSort {
				keys[k] = true
			}
		}
		merged := map[string]Term{}
		for _, k := range sortedKeys(keys) {
			a, b := c.get(alt, k), c.get(st, k)
			if a.S == b.S {
				merged[k] = a
			} else {
				merged[k] = c.define(c.compName(k)+"_d", tIte(flag, a, b))
			}
		}
		if alt.epoch > st.epoch {
			st.epoch = alt.epoch
		}
		if alt.gepoch > st.gepoch {
			st.gepoch = alt.gepoch
		}
		st.heap = merged
		st.alloc = c.define("alloc_d", tIte(flag, alt.alloc, st.alloc))
	}
}

// ---------------------------------------------------------------------------
// write sets (which heap components a set of blocks may write)

func (f *Frame) writeSet(blocks map[*ssa.BasicBlock]bool) (map[string]bool, bool) {
	comps := map[string]bool{}
	all := false
	visited := map[*ssa.Function]bool{f.fn: true}
	var scan func(fr *Frame, blocks map[*ssa.BasicBlock]bool)
	scan = func(fr *Frame, blocks map[*ssa.BasicBlock]bool) {
		saved := fr.shape
		fr.shape = true
		defer func() { fr.shape = saved }()
		for _, b := range fr.fn.Blocks {
			if blocks != nil && !blocks[b] {
				continue
			}
			for _, in := range b.Instrs {
				switch in := in.(type) {
				case *ssa.Store:
					l := fr.locOf(in.Addr)
					ks := fr.c.compsOfLoc(l)
					if ks == nil {
						all = true
					}
					for _, k := range ks {
						comps[k] = true
					}
				case *ssa.MapUpdate:
					has, val, ln := fr.c.mapComps(in.Map.Type().Underlying().(*types.Map))
					comps[has], comps[val], comps[ln] = true, true, true
				case *ssa.UnOp:
					if in.Op == token.ARROW {
						if sf := fr.c.db.specs["chanPending"]; sf != nil && sf.Ghost && len(sf.Params) == 1 {
							comps[fr.c.ghostKey(sf)] = true
						}
					}
				case *ssa.Slice:
					if pt, ok := in.X.Type().Underlying().(*types.Pointer); ok {
						if at, ok := pt.Elem().Underlying().(*types.Array); ok {
							comps[fr.c.elemComp(at.Elem())] = true
						}
					}
				case *ssa.Defer, *ssa.Call:
					if d, ok := in.(*ssa.Defer); ok {
						comps[fr.deferKey(d)] = true
					}
					ci := in.(ssa.CallInstruction)
					eff := fr.callEffects(ci)
					if eff.all {
						all = true
					}
					for k := range eff.comps {
						comps[k] = true
					}
					if eff.inline != nil && !visited[eff.inline] && len(eff.inline.Blocks) > 0 {
						visited[eff.inline] = true
						scan(fr.c.newFrameShape(eff.inline, fr), nil)
					}
				case *ssa.MakeSlice:
					comps[fr.c.elemComp(in.Type().Underlying().(*types.Slice).Elem())] = true
				case *ssa.MakeMap:
					has, val, ln := fr.c.mapComps(in.Type().Underlying().(*types.Map))
					comps[has], comps[val], comps[ln] = true, true, true
				case *ssa.Alloc:
					pt := in.Type().Underlying().(*types.Pointer).Elem()
					for _, k := range fr.c.compsOfLoc(fr.c.objLoc(T(SInt, "?"), pt)) {
						comps[k] = true
					}
				}
			}
		}
	}
	scan(f, blocks)
	return comps, all
}

func (c *Ctx) newFrameShape(fn *ssa.Function, parent *Frame) *Frame {
	saved := c.frames
	fr := c.newFrame(fn, parent)
	c.frames = saved
	fr.shape = true
	return fr
}

type effects struct {
	comps  map[string]bool
	all    bool
	inline *ssa.Function
}

// compBases records, for a heap component written inside a loop, which
// pre-existing objects may be written. unknown means "any object".
type compBases struct {
	unknown bool
	bases   []Term
}

func rootOf(addr ssa.Value) (ssa.Value, bool) {
	for {
		switch a := addr.(type) {
		case *ssa.FieldAddr:
			addr = a.X
		case *ssa.IndexAddr:
			if _, ok := a.X.Type().Underlying().(*types.Slice); ok {
				return a.X, true
			}
			addr = a.X
		default:
			return addr, false
		}
	}
}

// sliceRoots traces a slice value used inside a loop back to the slices it can
// share an array with: values defined outside the loop. Append results and
// reslices inside the loop either keep the array of their operand or (append)
// get an array allocated in the loop, which is not a pre-existing object.
func sliceRoots(v ssa.Value, blocks map[*ssa.BasicBlock]bool) ([]ssa.Value, bool) {
	seen := map[ssa.Value]bool{}
	var roots []ssa.Value
	ok := true
	var walk func(v ssa.Value)
	walk = func(v ssa.Value) {
		if seen[v] || !ok {
			return
		}
		seen[v] = true
		if len(seen) > 32 {
			ok = false
			return
		}
		in, isInstr := v.(ssa.Instruction)
		if !isInstr || !blocks[in.Block()] {
			switch v.(type) {
			case *ssa.Const:
				return // nil slice
			case *ssa.Parameter, *ssa.FreeVar, ssa.Instruction:
				roots = append(roots, v)
				return
			}
			ok = false
			return
		}
		switch x := v.(type) {
		case *ssa.Phi:
			for _, e := range x.Edges {
				walk(e)
			}
		case *ssa.Slice:
			if _, isSl := x.X.Type().Underlying().(*types.Slice); isSl {
				walk(x.X)
				return
			}
			ok = false
		case *ssa.Call:
			if b, isB := x.Call.Value.(*ssa.Builtin); isB && b.Name() == "append" {
				walk(x.Call.Args[0])
				return
			}
			ok = false
		default:
			ok = false
		}
	}
	walk(v)
	return roots, ok
}

// loopBases refines the write set of a loop to object granularity where the
// written objects are either loop-invariant pointers or allocated in the loop.
func (f *Frame) loopBases(blocks map[*ssa.BasicBlock]bool, pre *State, written map[string]bool) map[string]*compBases {
	c := f.c
	out := map[string]*compBases{}
	shapeLocOf := func(v ssa.Value) *Loc {
		saved := f.shape
		f.shape = true
		defer func() { f.shape = saved }()
		return f.locOf(v)
	}
	get := func(k string) *compBases {
		if out[k] == nil {
			out[k] = &compBases{}
		}
		return out[k]
	}
	outside := func(v ssa.Value) bool {
		switch x := v.(type) {
		case *ssa.Parameter, *ssa.FreeVar, *ssa.Const:
			return true
		case ssa.Instruction:
			return !blocks[x.Block()]
		}
		return false
	}
	freshIn := func(v ssa.Value) bool {
		switch x := v.(type) {
		case *ssa.Alloc:
			return blocks[x.Block()]
		case *ssa.MakeMap:
			return blocks[x.Block()]
		case *ssa.MakeSlice:
			return blocks[x.Block()]
		case *ssa.Call:
			// a callee whose contract promises fresh(result)
			if !blocks[x.Block()] {
				return false
			}
			if p := f.resolve(x); p.kind == "contract" && p.fc != nil {
				for _, en := range p.fc.Ensures {
					if strings.Contains(en.Src, "fresh(result)") {
						return true
					}
				}
			}
		}
		return false
	}
	addBase := func(k string, root ssa.Value, elem bool) {
		cb := get(k)
		if strings.HasPrefix(k, "G|") || strings.HasPrefix(k, "D|") || (strings.HasPrefix(k, "X|") && !c.refKeyedGhost[k]) {
			cb.unknown = true
			return
		}
		switch {
		case freshIn(root):
		case outside(root):
			if _, isG := root.(*ssa.Global); isG {
				cb.unknown = true
				return
			}
			if _, ok := f.vals[root]; !ok {
				if _, isC := root.(*ssa.Const); !isC {
					cb.unknown = true
					return
				}
			}
			t := f.val(root)
			if elem {
				t = app(SInt, "sl_arr", t)
			}
			if t.Sort != SInt {
				cb.unknown = true
				return
			}
			cb.bases = append(cb.bases, t)
		default:
			// the content of a captured variable's cell that the loop never writes
			if u, ok := root.(*ssa.UnOp); ok && u.Op == token.MUL && pre != nil && !elem {
				if fv, ok := u.X.(*ssa.FreeVar); ok {
					stable := true
					for _, ck := range c.compsOfLoc(shapeLocOf(fv)) {
						if written[ck] {
							stable = false
						}
					}
					if stable {
						if t := c.load(pre, f.locOf(fv)); t.Sort == SInt {
							cb.bases = append(cb.bases, t)
							return
						}
					}
				}
			}
			cb.unknown = true
		}
	}
	shapeLoc := func(v ssa.Value) *Loc {
		saved := f.shape
		f.shape = true
		defer func() { f.shape = saved }()
		return f.locOf(v)
	}
	for _, b := range f.fn.Blocks {
		if !blocks[b] {
			continue
		}
		for _, in := range b.Instrs {
			switch in := in.(type) {
			case *ssa.Store:
				root, elem := rootOf(in.Addr)
				for _, k := range c.compsOfLoc(shapeLoc(in.Addr)) {
					addBase(k, root, elem)
				}
			case *ssa.MapUpdate:
				has, val, ln := c.mapComps(in.Map.Type().Underlying().(*types.Map))
				for _, k := range []string{has, val, ln} {
					addBase(k, in.Map, false)
				}
			case *ssa.UnOp:
				if in.Op == token.ARROW {
					if sf := c.db.specs["chanPending"]; sf != nil && sf.Ghost && len(sf.Params) == 1 {
						addBase(c.ghostKey(sf), in.X, false)
					}
				}
			case *ssa.Slice:
				if pt, ok := in.X.Type().Underlying().(*types.Pointer); ok {
					if at, ok := pt.Elem().Underlying().(*types.Array); ok {
						root, _ := rootOf(in.X)
						addBase(c.elemComp(at.Elem()), root, false)
					}
				}
			case *ssa.Defer, *ssa.Call:
				ci := in.(ssa.CallInstruction)
				cm := ci.Common()
				p := f.resolve(ci)
				args := cm.Args
				if cm.IsInvoke() {
					args = append([]ssa.Value{cm.Value}, args...)
				}
				if p.owner != nil {
					args = append([]ssa.Value{p.owner}, args...)
				}
				switch p.kind {
				case "builtin":
					switch p.name {
					case "append", "copy":
						if st, ok := cm.Args[0].Type().Underlying().(*types.Slice); ok {
							// a slice variable of the loop (phi of a pre-loop slice and of
							// append results / reslices of itself) writes the array of the
							// pre-loop slice or an array allocated by append in the loop
							if roots, ok := sliceRoots(cm.Args[0], blocks); ok {
								for _, r := range roots {
									addBase(c.elemComp(st.Elem()), r, true)
								}
							} else {
								addBase(c.elemComp(st.Elem()), cm.Args[0], true)
							}
						}
					case "delete", "clear":
						if mt, ok := cm.Args[0].Type().Underlying().(*types.Map); ok {
							has, val, ln := c.mapComps(mt)
							for _, k := range []string{has, val, ln} {
								addBase(k, cm.Args[0], false)
							}
						}
					}
				case "contract":
					if p.fc.ModAll {
						break
					}
					ts, names := f.modTargetsShape(p)
					for _, t := range ts {
						idx := -1
						if t.obj != nil {
							for i, n := range names {
								if t.obj.S == n || t.obj.S == "(sl_arr "+n+")" {
									idx = i
								}
							}
						}
						// ghost attribute of an argument object: g(argN)
						if t.obj == nil && len(t.keys) >= 1 && c.refKeyedGhost[t.comp] {
							for i, n := range names {
								if t.keys[0].S == n && i < len(args) {
									addBase(t.comp, args[i], false)
									idx = -2
								}
							}
						}
						if idx == -2 {
							continue
						}
						if idx >= 0 && idx < len(args) {
							addBase(t.comp, args[idx], strings.HasPrefix(t.obj.S, "(sl_arr "))
						} else {
							get(t.comp).unknown = true
						}
					}
				case "noeffect":
					if f.silentCallee(ci, p) {
						break
					}
					for _, a := range args {
						_, isSlice := a.Type().Underlying().(*types.Slice)
						root := a
						if !isSlice {
							root, _ = rootOf(a)
						}
						for _, k := range f.directComps(a) {
							addBase(k, root, isSlice)
						}
					}
				case "inline":
					fr := c.newFrameShape(p.fn, f)
					cs, _ := fr.writeSet(nil)
					for k := range cs {
						if k != "*heap" {
							get(k).unknown = true
						}
					}
				}
			}
		}
	}
	return out
}
