package main

import (
	"fmt"
	"go/ast"
	"go/constant"
	"go/parser"
	"go/types"
	"math/big"
	"strings"
)

// Val is an evaluated contract expression.
type Val struct {
	T       Term
	GT      types.Type // Go type when known
	untyped bool       // untyped integer literal
	lit     *big.Int
	isNil   bool
	mk      func(Sort) Term // untyped composite: rebuild at a given integer sort
}

type Env struct {
	c    *Ctx
	vars map[string]Val
	st   *State
	old  *State
	pkg  *types.Package
	// lookup of local program variables by name (loop invariants, sites)
	local func(name string, st *State) (Val, bool)
	// results of the calls the function makes, by site selector
	res func(key string, i int) (Val, bool)
	// shadow: parameter names that loop invariants and sites read at their
	// current (possibly reassigned) value; old(x) still gives the entry value
	shadow map[string]bool
	// atLoop(k): environment at the header of loop k in its current iteration
	atLoop func(k int) *Env
}

var pkgByPath = map[string]*types.Package{}

// importAliases[pkgPath][localName] = import path, taken from the import
// declarations of the package's source files (so that contracts can use the
// same package aliases as the code).
var importAliases = map[string]map[string]string{}

func importMatches(pkg, imp *types.Package, name string) bool {
	if imp.Name() == name {
		return true
	}
	if m := importAliases[pkg.Path()]; m != nil {
		return m[name] == imp.Path()
	}
	return false
}

// typeArgText is the text of a type argument of typeis/unbox/inrange; pointer
// types are written as strings, e.g. typeis(x, "*HAMTDirectory").
func typeArgText(x Expr) string {
	if s, ok := x.(*EStr); ok {
		return s.Val
	}
	return x.String()
}

type evalError struct{ msg string }

func efail(format string, a ...any) { panic(evalError{fmt.Sprintf(format, a...)}) }

func (e *Env) with(st *State) *Env {
	n := *e
	n.st = st
	return &n
}

func (e *Env) bind(name string, v Val) *Env {
	n := *e
	n.vars = make(map[string]Val, len(e.vars)+1)
	for k, x := range e.vars {
		n.vars[k] = x
	}
	n.vars[name] = v
	if e.shadow[name] {
		n.shadow = map[string]bool{}
		for k := range e.shadow {
			if k != name {
				n.shadow[k] = true
			}
		}
	}
	return &n
}

// evalBool evaluates a clause to a Bool term, returning an error instead of panicking.
func (e *Env) evalBool(x Expr) (t Term, err error) {
	defer func() {
		if r := recover(); r != nil {
			if ee, ok := r.(evalError); ok {
				err = fmt.Errorf("%s in %s", ee.msg, x.String())
				return
			}
			panic(r)
		}
	}()
	v := e.eval(x)
	if v.T.Sort != SBool {
		efail("expression is not boolean (sort %s)", v.T.Sort)
	}
	return v.T, nil
}

func (e *Env) coerce(v Val, like Val) Val {
	c := e.c
	if v.isNil {
		switch like.T.Sort {
		case SIface:
			return Val{T: T(SIface, "nil_iface"), GT: like.GT}
		case SSlice:
			return Val{T: c.nilSlice(), GT: like.GT}
		case SInt:
			return Val{T: intLit(0), GT: like.GT}
		}
		efail("nil compared with sort %s", like.T.Sort)
	}
	if v.untyped && v.mk != nil {
		if _, ok := like.T.Sort.isBV(); ok || like.T.Sort == SInt {
			return Val{T: v.mk(like.T.Sort), GT: like.GT}
		}
		efail("integer expression used with sort %s", like.T.Sort)
	}
	if v.untyped {
		if w, ok := like.T.Sort.isBV(); ok {
			n := new(big.Int).Set(v.lit)
			if n.Sign() < 0 {
				n.Add(n, new(big.Int).Lsh(big.NewInt(1), uint(w)))
			}
			return Val{T: T(like.T.Sort, fmt.Sprintf("(_ bv%s %d)", n.String(), w)), GT: like.GT}
		}
		if like.T.Sort == SInt {
			return Val{T: v.T, GT: like.GT}
		}
		efail("integer literal used with sort %s", like.T.Sort)
	}
	return v
}

func (e *Env) unify(a, b Val) (Val, Val) {
	if (a.untyped || a.isNil) && !(b.untyped || b.isNil) {
		a = e.coerce(a, b)
	} else if (b.untyped || b.isNil) && !(a.untyped || a.isNil) {
		b = e.coerce(b, a)
	} else if a.untyped && b.untyped {
		return a, b
	}
	if a.T.Sort != b.T.Sort {
		efail("sort mismatch: %s (%s) vs %s (%s)", a.T.S, a.T.Sort, b.T.S, b.T.Sort)
	}
	return a, b
}

func isSigned(v Val) bool {
	if v.GT != nil {
		if _, s, ok := intInfo(v.GT); ok {
			return s
		}
	}
	return true
}

func (e *Env) eval(x Expr) Val {
	c := e.c
	switch x := x.(type) {
	case *EInt:
		n := new(big.Int)
		if _, ok := n.SetString(x.Val, 0); !ok {
			efail("bad integer %s", x.Val)
		}
		return Val{T: T(SInt, bigLit(n)), untyped: true, lit: n}
	case *EStr:
		return Val{T: c.strLit(x.Val), GT: types.Typ[types.String]}
	case *EIdent:
		return e.ident(x.Name)
	case *EUn:
		v := e.eval(x.X)
		switch x.Op {
		case "!":
			return Val{T: tNot(v.T), GT: types.Typ[types.Bool]}
		case "-":
			if v.untyped {
				n := new(big.Int).Neg(v.lit)
				return Val{T: T(SInt, bigLit(n)), untyped: true, lit: n}
			}
			if _, ok := v.T.Sort.isBV(); ok {
				return Val{T: app(v.T.Sort, "bvneg", v.T), GT: v.GT}
			}
			return Val{T: app(SInt, "-", v.T), GT: v.GT}
		case "^":
			if _, ok := v.T.Sort.isBV(); ok {
				return Val{T: app(v.T.Sort, "bvnot", v.T), GT: v.GT}
			}
		}
		efail("unsupported unary %s", x.Op)
	case *EBin:
		return e.binary(x)
	case *ESel:
		return e.selector(x)
	case *EIndex:
		return e.index(x)
	case *ECall:
		return e.call(x)
	}
	efail("unsupported expression %T", x)
	return Val{}
}

func bigLit(n *big.Int) string {
	if n.Sign() < 0 {
		return "(- " + new(big.Int).Neg(n).String() + ")"
	}
	return n.String()
}

func (e *Env) ident(name string) Val {
	c := e.c
	if e.shadow[name] && e.local != nil && e.st != e.old {
		if v, ok := e.local(name, e.st); ok {
			return v
		}
	}
	if v, ok := e.vars[name]; ok {
		return v
	}
	switch name {
	case "true":
		return Val{T: tTrue, GT: types.Typ[types.Bool]}
	case "false":
		return Val{T: tFalse, GT: types.Typ[types.Bool]}
	case "nil":
		return Val{isNil: true, T: T("Nil", "nil")}
	}
	if e.local != nil {
		if v, ok := e.local(name, e.st); ok {
			return v
		}
	}
	if sf, ok := c.db.specs[name]; ok && len(sf.Params) == 0 {
		return e.applySpec(sf, nil)
	}
	if e.pkg != nil {
		if obj := e.pkg.Scope().Lookup(name); obj != nil {
			return e.object(obj)
		}
	}
	if obj := types.Universe.Lookup(name); obj != nil {
		return e.object(obj)
	}
	efail("unknown identifier %s", name)
	return Val{}
}

func (e *Env) object(obj types.Object) Val {
	c := e.c
	switch o := obj.(type) {
	case *types.Const:
		v := o.Val()
		switch v.Kind() {
		case constant.Int:
			n, _ := new(big.Int).SetString(v.ExactString(), 10)
			if b, ok := o.Type().Underlying().(*types.Basic); ok && b.Info()&types.IsUntyped == 0 {
				r := e.coerce(Val{T: T(SInt, bigLit(n)), untyped: true, lit: n}, Val{T: T(c.sortOf(o.Type()), ""), GT: o.Type()})
				r.GT = o.Type()
				return r
			}
			return Val{T: T(SInt, bigLit(n)), untyped: true, lit: n}
		case constant.Bool:
			if constant.BoolVal(v) {
				return Val{T: tTrue, GT: types.Typ[types.Bool]}
			}
			return Val{T: tFalse, GT: types.Typ[types.Bool]}
		case constant.String:
			return Val{T: c.strLit(constant.StringVal(v)), GT: types.Typ[types.String]}
		}
	case *types.Var:
		if o.Pkg() != nil && o.Parent() == o.Pkg().Scope() {
			return Val{T: c.loadGlobal(e.st, o.Pkg().Path(), o.Name(), o.Type()), GT: o.Type()}
		}
	case *types.Nil:
		return Val{isNil: true, T: T("Nil", "nil")}
	}
	efail("identifier %s is not usable in a contract", obj.Name())
	return Val{}
}

func (e *Env) binary(x *EBin) Val {
	c := e.c
	boolT := types.Typ[types.Bool]
	switch x.Op {
	case "&&", "||", "==>", "<==>":
		a, b := e.eval(x.X), e.eval(x.Y)
		if a.T.Sort != SBool || b.T.Sort != SBool {
			efail("logical operator %s on non-boolean operands", x.Op)
		}
		switch x.Op {
		case "&&":
			return Val{T: tAnd(a.T, b.T), GT: boolT}
		case "||":
			return Val{T: tOr(a.T, b.T), GT: boolT}
		case "==>":
			return Val{T: tImp(a.T, b.T), GT: boolT}
		default:
			return Val{T: tEq(a.T, b.T), GT: boolT}
		}
	}
	a, b := e.eval(x.X), e.eval(x.Y)
	if a.untyped && b.untyped && a.lit != nil && b.lit != nil {
		// constant folding for literals
		n := new(big.Int)
		switch x.Op {
		case "+":
			n.Add(a.lit, b.lit)
		case "-":
			n.Sub(a.lit, b.lit)
		case "*":
			n.Mul(a.lit, b.lit)
		case "<<":
			n.Lsh(a.lit, uint(b.lit.Int64()))
		default:
			n = nil
		}
		if n != nil {
			return Val{T: T(SInt, bigLit(n)), untyped: true, lit: n}
		}
	}
	if a.untyped && b.untyped {
		// untyped composite (e.g. ite(c, 1, 2) + 1): built lazily at the sort it is used with
		av, bv2, op := a, b, x.Op
		switch op {
		case "==", "!=", "<", "<=", ">", ">=":
			like := Val{T: T(c.I(), ""), GT: types.Typ[types.Int]}
			return e.binTyped(op, e.coerce(av, like), e.coerce(bv2, like))
		}
		return Val{T: T(SInt, "?untyped"), untyped: true, mk: func(s Sort) Term {
			like := Val{T: T(s, "")}
			return e.binTyped(op, e.coerce(av, like), e.coerce(bv2, like)).T
		}}
	}
	a, b = e.unify(a, b)
	return e.binTyped(x.Op, a, b)
}

func (e *Env) binTyped(op string, a, b Val) Val {
	c := e.c
	boolT := types.Typ[types.Bool]
	x := struct{ Op string }{op}
	gt := a.GT
	if gt == nil {
		gt = b.GT
	}
	switch x.Op {
	case "==":
		return Val{T: tEq(a.T, b.T), GT: boolT}
	case "!=":
		return Val{T: tNot(tEq(a.T, b.T)), GT: boolT}
	}
	_, isBV := a.T.Sort.isBV()
	signed := isSigned(a) && isSigned(b)
	if !isBV && a.T.Sort != SInt {
		efail("operator %s on sort %s", x.Op, a.T.Sort)
	}
	cmp := func(iop, sop, uop string) Val {
		if !isBV {
			return Val{T: app(SBool, iop, a.T, b.T), GT: boolT}
		}
		if signed {
			return Val{T: app(SBool, sop, a.T, b.T), GT: boolT}
		}
		return Val{T: app(SBool, uop, a.T, b.T), GT: boolT}
	}
	switch x.Op {
	case "<":
		return cmp("<", "bvslt", "bvult")
	case "<=":
		return cmp("<=", "bvsle", "bvule")
	case ">":
		return cmp(">", "bvsgt", "bvugt")
	case ">=":
		return cmp(">=", "bvsge", "bvuge")
	}
	ar := func(iop, bop string) Val {
		if isBV {
			return Val{T: app(a.T.Sort, bop, a.T, b.T), GT: gt}
		}
		return Val{T: app(SInt, iop, a.T, b.T), GT: gt}
	}
	switch x.Op {
	case "+":
		return ar("+", "bvadd")
	case "-":
		return ar("-", "bvsub")
	case "*":
		return ar("*", "bvmul")
	case "/":
		if isBV {
			if signed {
				return Val{T: app(a.T.Sort, "bvsdiv", a.T, b.T), GT: gt}
			}
			return Val{T: app(a.T.Sort, "bvudiv", a.T, b.T), GT: gt}
		}
		return Val{T: c.tdiv(a.T, b.T), GT: gt}
	case "%":
		if isBV {
			if signed {
				return Val{T: app(a.T.Sort, "bvsrem", a.T, b.T), GT: gt}
			}
			return Val{T: app(a.T.Sort, "bvurem", a.T, b.T), GT: gt}
		}
		return Val{T: c.trem(a.T, b.T), GT: gt}
	case "&":
		if isBV {
			return Val{T: app(a.T.Sort, "bvand", a.T, b.T), GT: gt}
		}
	case "|":
		if isBV {
			return Val{T: app(a.T.Sort, "bvor", a.T, b.T), GT: gt}
		}
	case "^":
		if isBV {
			return Val{T: app(a.T.Sort, "bvxor", a.T, b.T), GT: gt}
		}
	case "&^":
		if isBV {
			return Val{T: app(a.T.Sort, "bvand", a.T, app(a.T.Sort, "bvnot", b.T)), GT: gt}
		}
	case "<<":
		if isBV {
			return Val{T: app(a.T.Sort, "bvshl", a.T, b.T), GT: gt}
		}
	case ">>":
		if isBV {
			if signed {
				return Val{T: app(a.T.Sort, "bvashr", a.T, b.T), GT: gt}
			}
			return Val{T: app(a.T.Sort, "bvlshr", a.T, b.T), GT: gt}
		}
	}
	efail("operator %s unsupported in %s mode", x.Op, c.mode)
	return Val{}
}

func (e *Env) selector(x *ESel) Val {
	c := e.c
	// qualified identifier?
	if id, ok := x.X.(*EIdent); ok && e.pkg != nil {
		if _, isVar := e.vars[id.Name]; !isVar {
			isLocal := false
			if e.local != nil {
				_, isLocal = e.local(id.Name, e.st)
			}
			if !isLocal {
				for _, imp := range e.pkg.Imports() {
					if importMatches(e.pkg, imp, id.Name) {
						obj := imp.Scope().Lookup(x.Name)
						if obj == nil {
							efail("%s.%s not found", id.Name, x.Name)
						}
						return e.object(obj)
					}
				}
			}
		}
	}
	v := e.eval(x.X)
	if v.GT == nil {
		efail("selector .%s on a value without a Go type", x.Name)
	}
	t := v.GT
	if p, ok := t.Underlying().(*types.Pointer); ok {
		st, ok := p.Elem().Underlying().(*types.Struct)
		if !ok {
			efail("selector on pointer to non-struct")
		}
		idx, ft, path := findField(st, x.Name)
		if idx < 0 {
			efail("no field %s in %s", x.Name, p.Elem())
		}
		if len(path) > 1 {
			// promoted through embedded structs (by value only)
			loc := c.objLoc(v.T, p.Elem())
			for _, i := range path {
				loc = c.fieldLoc(loc, i)
			}
			return Val{T: e.heapRef(c.load(e.st, loc), ft), GT: ft}
		}
		loc := c.fieldLoc(c.objLoc(v.T, p.Elem()), idx)
		return Val{T: e.heapRef(c.load(e.st, loc), ft), GT: ft}
	}
	if st, ok := t.Underlying().(*types.Struct); ok {
		idx, ft, path := findField(st, x.Name)
		if idx < 0 {
			efail("no field %s in %s", x.Name, t)
		}
		cur := v.T
		ct := t
		for _, i := range path {
			si := c.structOf(ct)
			cur = c.getField(si, cur, i)
			ct = si.fields[i].typ
		}
		return Val{T: cur, GT: ft}
	}
	efail("selector .%s on %s", x.Name, t)
	return Val{}
}

// findField finds a (possibly promoted, by-value embedded) field.
func findField(st *types.Struct, name string) (int, types.Type, []int) {
	for i := 0; i < st.NumFields(); i++ {
		if st.Field(i).Name() == name {
			return i, st.Field(i).Type(), []int{i}
		}
	}
	for i := 0; i < st.NumFields(); i++ {
		f := st.Field(i)
		if f.Embedded() {
			if inner, ok := f.Type().Underlying().(*types.Struct); ok {
				if j, ft, p := findField(inner, name); j >= 0 {
					return i, ft, append([]int{i}, p...)
				}
			}
		}
	}
	return -1, nil, nil
}

func (e *Env) index(x *EIndex) Val {
	c := e.c
	v := e.eval(x.X)
	if strings.HasPrefix(string(v.T.Sort), "(Array ") && v.GT == nil {
		i := e.eval(x.I)
		ks := keyOfArr(v.T.Sort)
		i = e.coerce(i, Val{T: T(ks, "")})
		if i.T.Sort != ks {
			efail("index sort %s, want %s", i.T.Sort, ks)
		}
		return Val{T: tSelect(v.T, i.T, elemOfArr(v.T.Sort))}
	}
	if v.GT == nil {
		efail("index on value without Go type")
	}
	switch u := v.GT.Underlying().(type) {
	case *types.Slice:
		i := e.coerce(e.eval(x.I), Val{T: T(c.I(), ""), GT: types.Typ[types.Int]})
		return Val{T: c.sliceElem(e.st, v.T, i.T, u.Elem()), GT: u.Elem()}
	case *types.Array:
		i := e.coerce(e.eval(x.I), Val{T: T(c.I(), ""), GT: types.Typ[types.Int]})
		return Val{T: tSelect(v.T, i.T, c.sortOf(u.Elem())), GT: u.Elem()}
	case *types.Map:
		k := e.coerce(e.eval(x.I), Val{T: T(c.sortOf(u.Key()), ""), GT: u.Key()})
		_, val, _ := c.mapComps(u)
		inner := app(elemOfArr(c.compSort[val]), "select", c.get(e.st, val), v.T)
		return Val{T: tSelect(inner, k.T, c.sortOf(u.Elem())), GT: u.Elem()}
	case *types.Basic:
		if u.Info()&types.IsString != 0 {
			i := e.coerce(e.eval(x.I), Val{T: T(c.I(), ""), GT: types.Typ[types.Int]})
			return Val{T: c.strAt(v.T, i.T), GT: types.Typ[types.Uint8]}
		}
	}
	efail("index on %s", v.GT)
	return Val{}
}

func keyOfArr(s Sort) Sort {
	str := string(s)
	body := str[len("(Array ") : len(str)-1]
	depth := 0
	for i, r := range body {
		switch r {
		case '(':
			depth++
		case ')':
			depth--
		case ' ':
			if depth == 0 {
				return Sort(body[:i])
			}
		}
	}
	panic("bad array sort")
}

func (e *Env) call(x *ECall) Val {
	c := e.c
	id, ok := x.Fun.(*EIdent)
	if !ok {
		// pkg.Type(x) conversion or method-like spec: unsupported
		if sel, ok := x.Fun.(*ESel); ok {
			if t, _ := e.resolveTypeText(sel.X.String() + "." + sel.Name); t != nil && len(x.Args) == 1 {
				return e.convert(e.eval(x.Args[0]), t)
			}
		}
		efail("unsupported call %s", x.String())
	}
	boolT := types.Typ[types.Bool]
	intT := types.Typ[types.Int]
	switch id.Name {
	case "old":
		if e.old == nil {
			efail("old() outside a postcondition")
		}
		return e.with(e.old).eval(x.Args[0])
	case "ite":
		cnd := e.eval(x.Args[0])
		a, b := e.unify(e.eval(x.Args[1]), e.eval(x.Args[2]))
		gt := a.GT
		if gt == nil {
			gt = b.GT
		}
		if a.untyped && b.untyped {
			av, bvv := a, b
			return Val{T: tIte(cnd.T, a.T, b.T), untyped: true, mk: func(s Sort) Term {
				like := Val{T: T(s, "")}
				return tIte(cnd.T, e.coerce(av, like).T, e.coerce(bvv, like).T)
			}}
		}
		return Val{T: tIte(cnd.T, a.T, b.T), GT: gt}
	case "len", "cap":
		v := e.eval(x.Args[0])
		switch {
		case v.T.Sort == SSlice:
			f := "sl_len"
			if id.Name == "cap" {
				f = "sl_cap"
			}
			return Val{T: app(c.I(), f, v.T), GT: intT}
		case v.T.Sort == SStr:
			return Val{T: app(c.I(), "str_len", v.T), GT: intT}
		case v.GT != nil:
			if m, ok := v.GT.Underlying().(*types.Map); ok {
				_, _, ln := c.mapComps(m)
				return Val{T: tSelect(c.get(e.st, ln), v.T, c.I()), GT: intT}
			}
			if a, ok := v.GT.Underlying().(*types.Array); ok {
				return Val{T: c.intConst(a.Len(), c.I()), GT: intT}
			}
		}
		efail("len of %s", v.T.Sort)
	case "has":
		m := e.eval(x.Args[0])
		if m.GT != nil {
			if mt, ok := m.GT.Underlying().(*types.Map); ok {
				k := e.coerce(e.eval(x.Args[1]), Val{T: T(c.sortOf(mt.Key()), ""), GT: mt.Key()})
				has, _, _ := c.mapComps(mt)
				inner := app(elemOfArr(c.compSort[has]), "select", c.get(e.st, has), m.T)
				return Val{T: tAnd(tNot(tEq(m.T, intLit(0))), tSelect(inner, k.T, SBool)), GT: boolT}
			}
		}
		efail("has() on non-map")
	case "forall", "exists":
		if len(x.Args) != 4 {
			efail("%s(i, lo, hi, body)", id.Name)
		}
		iv, ok := x.Args[0].(*EIdent)
		if !ok {
			efail("%s binder must be an identifier", id.Name)
		}
		lo := e.coerce(e.eval(x.Args[1]), Val{T: T(c.I(), ""), GT: intT})
		hi := e.coerce(e.eval(x.Args[2]), Val{T: T(c.I(), ""), GT: intT})
		c.nfresh++
		bn := fmt.Sprintf("%s!q%d", sanitize(iv.Name), c.nfresh)
		bv := Val{T: T(c.I(), bn), GT: intT}
		body := e.bind(iv.Name, bv).eval(x.Args[3])
		var rng Term
		if c.mode == "bv" {
			rng = tAnd(app(SBool, "bvsle", lo.T, bv.T), app(SBool, "bvslt", bv.T, hi.T))
		} else {
			rng = tAnd(app(SBool, "<=", lo.T, bv.T), app(SBool, "<", bv.T, hi.T))
		}
		if id.Name == "forall" {
			return Val{T: T(SBool, fmt.Sprintf("(forall ((%s %s)) %s)", bn, c.I(), tImp(rng, body.T).S)), GT: boolT}
		}
		return Val{T: T(SBool, fmt.Sprintf("(exists ((%s %s)) %s)", bn, c.I(), tAnd(rng, body.T).S)), GT: boolT}
	case "all", "any":
		gt, s := e.resolveTypeText(x.BindType)
		c.nfresh++
		bn := fmt.Sprintf("%s!q%d", sanitize(x.BindName), c.nfresh)
		body := e.bind(x.BindName, Val{T: T(s, bn), GT: gt}).eval(x.Args[0])
		q := "forall"
		if id.Name == "any" {
			q = "exists"
		}
		return Val{T: T(SBool, fmt.Sprintf("(%s ((%s %s)) %s)", q, bn, s, body.T.S)), GT: boolT}
	case "upd":
		a := e.eval(x.Args[0])
		ks, vs := keyOfArr(a.T.Sort), elemOfArr(a.T.Sort)
		k := e.coerce(e.eval(x.Args[1]), Val{T: T(ks, "")})
		v := e.coerce(e.eval(x.Args[2]), Val{T: T(vs, "")})
		if k.T.Sort != ks || v.T.Sort != vs {
			efail("upd sorts: key %s/%s value %s/%s", k.T.Sort, ks, v.T.Sort, vs)
		}
		return Val{T: tStore(a.T, k.T, v.T)}
	case "atloop":
		// atloop(k, expr): value of expr at the header of loop k in the current
		// iteration of that loop
		if e.atLoop == nil {
			efail("atloop() is only available in loop invariants, continue clauses and sites")
		}
		li, ok := x.Args[0].(*EInt)
		if !ok || len(x.Args) != 2 {
			efail("atloop(<loop ordinal>, expr)")
		}
		k := 0
		fmt.Sscanf(li.Val, "%d", &k)
		he := e.atLoop(k)
		if he == nil {
			efail("atloop(%d, ...): not inside loop %d", k, k)
		}
		// bound (quantified) variables stay visible
		h2 := *he
		h2.vars = map[string]Val{}
		for n, v := range he.vars {
			h2.vars[n] = v
		}
		for n, v := range e.vars {
			if _, isParam := he.vars[n]; !isParam {
				h2.vars[n] = v
			}
		}
		return h2.eval(x.Args[1])
	case "called":
		// called("<selector>#k"): that call of the function was executed on this path
		// (false when the function makes no such call)
		if e.res == nil {
			efail("called() is only available in ensures clauses and sites of a verified function")
		}
		ks, ok := x.Args[0].(*EStr)
		if !ok {
			efail("called() expects a string selector")
		}
		if v, ok := e.res("reach:"+ks.Val, 0); ok {
			return v
		}
		return Val{T: tFalse, GT: boolT}
	case "res":
		// res("<selector>#k") / res("<selector>#k", i): result i of that call of the function
		if e.res == nil {
			efail("res() is only available in ensures clauses and sites of a verified function")
		}
		ks, ok := x.Args[0].(*EStr)
		if !ok {
			efail("res() expects a string selector")
		}
		idx := 0
		if len(x.Args) > 1 {
			li, ok := x.Args[1].(*EInt)
			if !ok {
				efail("res() index must be a literal")
			}
			fmt.Sscanf(li.Val, "%d", &idx)
		}
		v, ok := e.res(ks.Val, idx)
		if !ok {
			efail("res(%q, %d): no such call result (call not executed on any path, or renamed)", ks.Val, idx)
		}
		return v
	case "asIface":
		v := e.eval(x.Args[0])
		if v.GT == nil {
			efail("asIface of value without Go type")
		}
		if _, isI := v.GT.Underlying().(*types.Interface); isI {
			return v
		}
		return Val{T: c.box(v.T, v.GT)}
	case "addr":
		// addr(p.f): address of field f of the object p points to (e.g. an embedded mutex)
		sel, ok := x.Args[0].(*ESel)
		if !ok {
			efail("addr() expects p.field")
		}
		pv := e.eval(sel.X)
		if pv.GT == nil {
			efail("addr(): receiver without Go type")
		}
		pt, ok := pv.GT.Underlying().(*types.Pointer)
		if !ok {
			efail("addr(): %s is not a pointer", sel.X)
		}
		st, ok := pt.Elem().Underlying().(*types.Struct)
		if !ok {
			efail("addr(): not a struct pointer")
		}
		idx, ft, path := findField(st, sel.Name)
		if idx < 0 || len(path) != 1 {
			efail("addr(): no direct field %s", sel.Name)
		}
		return Val{T: c.fieldAddr(pv.T, c.fieldComp(pt.Elem(), idx)), GT: types.NewPointer(ft)}
	case "arr":
		// identity of the backing array of a slice
		v := e.eval(x.Args[0])
		if v.T.Sort != SSlice {
			efail("arr() of non-slice")
		}
		return Val{T: app(SInt, "sl_arr", v.T)}
	case "zero":
		gt, _ := e.resolveTypeText(x.Args[0].String())
		if gt == nil {
			efail("zero(): unknown type %s", x.Args[0])
		}
		return Val{T: c.zero(gt), GT: gt}
	case "deref":
		v := e.eval(x.Args[0])
		if v.GT == nil {
			efail("deref of value without Go type")
		}
		pt, ok := v.GT.Underlying().(*types.Pointer)
		if !ok {
			efail("deref of non-pointer %s", v.GT)
		}
		return Val{T: c.load(e.st, c.objLoc(v.T, pt.Elem())), GT: pt.Elem()}
	case "fresh":
		// fresh(p): the object p was allocated during the call (old() state's
		// allocation counter is below it)
		v := e.eval(x.Args[0])
		if e.old == nil || v.T.Sort != SInt {
			efail("fresh() needs a reference and a two-state context")
		}
		return Val{T: app(SBool, ">", v.T, e.old.alloc), GT: boolT}
	case "isnil":
		v := e.eval(x.Args[0])
		return Val{T: tEq(v.T, e.coerce(Val{isNil: true}, v).T), GT: boolT}
	case "typeis":
		// typeis(x, T): dynamic type of interface value x is T
		v := e.eval(x.Args[0])
		gt, _ := e.resolveTypeText(typeArgText(x.Args[1]))
		if gt == nil {
			efail("typeis: unknown type %s", x.Args[1])
		}
		return Val{T: tEq(app(SInt, "typeof", v.T), c.typeTag(gt)), GT: boolT}
	case "unbox":
		v := e.eval(x.Args[0])
		gt, _ := e.resolveTypeText(typeArgText(x.Args[1]))
		if gt == nil {
			efail("unbox: unknown type %s", x.Args[1])
		}
		return Val{T: c.unbox(v.T, gt), GT: gt}
	case "inrange":
		// inrange(x, T): x fits Go integer type T (int mode)
		v := e.eval(x.Args[0])
		gt, _ := e.resolveTypeText(typeArgText(x.Args[1]))
		return Val{T: c.typeRange(v.T, gt), GT: boolT}
	}
	if sf, ok := c.db.specs[id.Name]; ok && sf.Macro {
		if len(x.Args) != len(sf.Params) {
			efail("macro %s expects %d arguments", sf.Name, len(sf.Params))
		}
		inner := *e
		inner.vars = map[string]Val{}
		for i, a := range x.Args {
			inner.vars[sf.Params[i].Name] = e.eval(a)
		}
		inner.local = nil
		if p := pkgByPath[sf.Pkg]; p != nil {
			inner.pkg = p
		}
		return inner.eval(sf.Body)
	}
	if sf, ok := c.db.specs[id.Name]; ok {
		var args []Val
		for _, a := range x.Args {
			args = append(args, e.eval(a))
		}
		return e.applySpec(sf, args)
	}
	// conversion to a Go type?
	if t, _ := e.resolveTypeText(id.Name); t != nil && len(x.Args) == 1 {
		return e.convert(e.eval(x.Args[0]), t)
	}
	efail("unknown function %s", id.Name)
	return Val{}
}

func (e *Env) convert(v Val, t types.Type) Val {
	c := e.c
	s := c.sortOf(t)
	if v.untyped {
		r := e.coerce(v, Val{T: T(s, ""), GT: t})
		r.GT = t
		return r
	}
	if v.T.Sort == s {
		if w, ok := s.isBV(); ok && v.GT != nil {
			_ = w
		}
		return Val{T: v.T, GT: t}
	}
	wt, _ := s.isBV()
	wf, okf := v.T.Sort.isBV()
	if okf && wt > 0 {
		if wt < wf {
			return Val{T: T(s, fmt.Sprintf("((_ extract %d 0) %s)", wt-1, v.T.S)), GT: t}
		}
		if isSigned(v) {
			return Val{T: T(s, fmt.Sprintf("((_ sign_extend %d) %s)", wt-wf, v.T.S)), GT: t}
		}
		return Val{T: T(s, fmt.Sprintf("((_ zero_extend %d) %s)", wt-wf, v.T.S)), GT: t}
	}
	efail("conversion from %s to %s", v.T.Sort, s)
	return Val{}
}

// resolveTypeText resolves a Go type (or abstract sort) written in a contract.
func (e *Env) resolveTypeText(text string) (types.Type, Sort) {
	return e.c.resolveType(text, e.pkg)
}

func (c *Ctx) resolveType(text string, pkg *types.Package) (types.Type, Sort) {
	text = strings.TrimSpace(text)
	x, err := parser.ParseExpr(text)
	if err != nil {
		efail("bad type %q: %v", text, err)
	}
	return c.resolveTypeAST(x, pkg)
}

func (c *Ctx) resolveTypeAST(x ast.Expr, pkg *types.Package) (types.Type, Sort) {
	switch x := x.(type) {
	case *ast.Ident:
		if obj := types.Universe.Lookup(x.Name); obj != nil {
			if tn, ok := obj.(*types.TypeName); ok {
				return tn.Type(), c.sortOf(tn.Type())
			}
		}
		if pkg != nil {
			if obj := pkg.Scope().Lookup(x.Name); obj != nil {
				if tn, ok := obj.(*types.TypeName); ok {
					return tn.Type(), c.sortOf(tn.Type())
				}
			}
		}
		switch x.Name {
		case "Int":
			return nil, SInt
		case "Bool":
			return nil, SBool
		case "Str":
			return nil, SStr
		}
		// abstract sort
		if x.Name != "" && x.Name[0] >= 'A' && x.Name[0] <= 'Z' {
			n := "U_" + x.Name
			c.declare(n, fmt.Sprintf("(declare-sort %s 0)", n))
			return nil, Sort(n)
		}
		return nil, ""
	case *ast.SelectorExpr:
		if id, ok := x.X.(*ast.Ident); ok && pkg != nil {
			for _, imp := range pkg.Imports() {
				if importMatches(pkg, imp, id.Name) {
					if obj := imp.Scope().Lookup(x.Sel.Name); obj != nil {
						if tn, ok := obj.(*types.TypeName); ok {
							return tn.Type(), c.sortOf(tn.Type())
						}
					}
				}
			}
		}
		return nil, ""
	case *ast.StarExpr:
		t, _ := c.resolveTypeAST(x.X, pkg)
		if t == nil {
			return nil, SInt
		}
		pt := types.NewPointer(t)
		return pt, SInt
	case *ast.ArrayType:
		t, _ := c.resolveTypeAST(x.Elt, pkg)
		if t == nil {
			return nil, ""
		}
		if x.Len == nil {
			st := types.NewSlice(t)
			return st, SSlice
		}
		return nil, ""
	case *ast.MapType:
		_, ks := c.resolveTypeAST(x.Key, pkg)
		_, vs := c.resolveTypeAST(x.Value, pkg)
		if ks == "" || vs == "" {
			efail("cannot resolve ghost map type")
		}
		return nil, arrSort(ks, vs)
	case *ast.ParenExpr:
		return c.resolveTypeAST(x.X, pkg)
	case *ast.ChanType:
		t, _ := c.resolveTypeAST(x.Value, pkg)
		if t == nil {
			return nil, SInt
		}
		dir := types.SendRecv
		switch x.Dir {
		case ast.RECV:
			dir = types.RecvOnly
		case ast.SEND:
			dir = types.SendOnly
		}
		return types.NewChan(dir, t), SInt
	}
	return nil, ""
}

// applySpec applies a spec function or reads a ghost component.
func (e *Env) applySpec(sf *SpecFunc, args []Val) Val {
	c := e.c
	if len(args) != len(sf.Params) {
		efail("%s expects %d arguments", sf.Name, len(sf.Params))
	}
	sig := c.specSig(sf)
	var ts []Term
	for i, a := range args {
		a = e.coerce(a, Val{T: T(sig.params[i], ""), GT: sig.ptypes[i]})
		if a.T.Sort != sig.params[i] {
			efail("%s argument %d has sort %s, want %s", sf.Name, i, a.T.Sort, sig.params[i])
		}
		ts = append(ts, a.T)
	}
	if sf.Ghost {
		key := c.ghostKey(sf)
		cur := c.get(e.st, key)
		for _, t := range ts {
			cur = app(elemOfArr(cur.Sort), "select", cur, t)
		}
		return Val{T: cur, GT: sig.rtype}
	}
	c.declareSpec(sf)
	if len(ts) == 0 {
		return Val{T: T(sig.result, "sp_"+sf.Name), GT: sig.rtype}
	}
	return Val{T: app(sig.result, "sp_"+sf.Name, ts...), GT: sig.rtype}
}

type specSig struct {
	params []Sort
	ptypes []types.Type
	result Sort
	rtype  types.Type
}

var specSigCache = map[*Ctx]map[string]*specSig{}

func (c *Ctx) specSig(sf *SpecFunc) *specSig {
	m := specSigCache[c]
	if m == nil {
		m = map[string]*specSig{}
		specSigCache[c] = m
	}
	if s, ok := m[sf.Name]; ok {
		return s
	}
	pkg := pkgByPath[sf.Pkg]
	s := &specSig{}
	for _, p := range sf.Params {
		gt, so := c.resolveType(p.Type, pkg)
		if so == "" {
			efail("spec %s: cannot resolve type %s", sf.Name, p.Type)
		}
		s.params = append(s.params, so)
		s.ptypes = append(s.ptypes, gt)
	}
	gt, so := c.resolveType(sf.Result, pkg)
	if so == "" {
		efail("spec %s: cannot resolve result type %s", sf.Name, sf.Result)
	}
	s.result, s.rtype = so, gt
	m[sf.Name] = s
	return s
}

// initGhosts gives ghost attributes declared with a default ("ghost g(p *T) R = v")
// their default value on a freshly allocated object of type T.
func (c *Ctx) initGhosts(st *State, ref Term, elem types.Type) {
	for _, name := range sortedKeys(c.db.specs) {
		sf := c.db.specs[name]
		if !sf.Ghost || sf.Body == nil || len(sf.Params) != 1 {
			continue
		}
		func() {
			defer func() {
				if r := recover(); r != nil {
					if _, ok := r.(evalError); !ok {
						panic(r)
					}
				}
			}()
			sig := c.specSig(sf)
			pt, ok := sig.ptypes[0].(*types.Pointer)
			if sig.ptypes[0] == nil || !ok || !types.Identical(pt.Elem(), elem) {
				return
			}
			env := &Env{c: c, vars: map[string]Val{}, pkg: pkgByPath[sf.Pkg], st: st}
			v := env.coerce(env.eval(sf.Body), Val{T: T(sig.result, ""), GT: sig.rtype})
			key := c.ghostKey(sf)
			c.set(st, key, tStore(c.get(st, key), ref, v.T))
		}()
	}
}

// heapRef: a reference (pointer, map, channel, slice) read from the heap by a contract
// expression obeys the allocator invariant assumed at every load of the code itself: it
// denotes an object allocated so far, and not one the function under verification has
// allocated and not yet stored or passed anywhere.
func (e *Env) heapRef(t Term, gt types.Type) Term {
	if e.st == nil || e.st.alloc.S == "" || strings.Contains(t.S, "?arg") || strings.Contains(t.S, "!q") {
		// (shape-only evaluation of a modifies clause over placeholder arguments, or a
		// load under a quantifier, whose bound variable must not leak into a global fact)
		return t
	}
	switch gt.Underlying().(type) {
	case *types.Pointer, *types.Map, *types.Chan, *types.Slice:
		e.c.assume(e.c.valueInv(t, gt, e.st), false)
	}
	return t
}

func (c *Ctx) ghostKey(sf *SpecFunc) string {
	sig := c.specSig(sf)
	s := sig.result
	for i := len(sig.params) - 1; i >= 0; i-- {
		s = arrSort(sig.params[i], s)
	}
	key := c.ghostComp(sf.Name, s)
	if len(sig.ptypes) > 0 && sig.ptypes[0] != nil {
		switch sig.ptypes[0].Underlying().(type) {
		case *types.Pointer, *types.Map, *types.Chan:
			c.refKeyedGhost[key] = true
		}
	}
	return key
}

func (c *Ctx) declareSpec(sf *SpecFunc) {
	name := "sp_" + sf.Name
	if c.declared[name] {
		return
	}
	sig := c.specSig(sf)
	if sf.Body == nil || c.opaque[sf.Name] {
		var ps []string
		for _, p := range sig.params {
			ps = append(ps, string(p))
		}
		c.declare(name, fmt.Sprintf("(declare-fun %s (%s) %s)", name, strings.Join(ps, " "), sig.result))
		return
	}
	c.declared[name] = true // before evaluating the body (recursion)
	okDecl := false
	defer func() {
		if !okDecl {
			delete(c.declared, name)
		}
	}()
	env := &Env{c: c, vars: map[string]Val{}, pkg: pkgByPath[sf.Pkg], st: &State{heap: map[string]Term{}, alloc: intLit(0)}}
	var ps []string
	for i, p := range sf.Params {
		pn := "p_" + sanitize(p.Name)
		env.vars[p.Name] = Val{T: T(sig.params[i], pn), GT: sig.ptypes[i]}
		ps = append(ps, fmt.Sprintf("(%s %s)", pn, sig.params[i]))
	}
	body := env.eval(sf.Body)
	body = env.coerce(body, Val{T: T(sig.result, ""), GT: sig.rtype})
	if body.T.Sort != sig.result {
		efail("spec %s body has sort %s, declared %s", sf.Name, body.T.Sort, sig.result)
	}
	kw := "define-fun"
	if sf.Rec {
		kw = "define-fun-rec"
	}
	c.decls = append(c.decls, fmt.Sprintf("(%s %s (%s) %s %s)", kw, name, strings.Join(ps, " "), sig.result, body.T.S))
	okDecl = true
}

// axiomTerm builds the closed formula of an axiom or lemma.
func (c *Ctx) axiomTerm(ax *Axiom) (Term, error) {
	var out Term
	var err error
	func() {
		defer func() {
			if r := recover(); r != nil {
				if ee, ok := r.(evalError); ok {
					err = fmt.Errorf("%s: %s", ax.Name, ee.msg)
					return
				}
				panic(r)
			}
		}()
		env := &Env{c: c, vars: map[string]Val{}, pkg: pkgByPath[ax.Pkg], st: &State{heap: map[string]Term{}, alloc: intLit(0)}}
		var binders []string
		for _, v := range ax.Vars {
			gt, s := c.resolveType(v.Type, env.pkg)
			if s == "" {
				efail("cannot resolve type %s", v.Type)
			}
			bn := "ax_" + sanitize(v.Name)
			env.vars[v.Name] = Val{T: T(s, bn), GT: gt}
			binders = append(binders, fmt.Sprintf("(%s %s)", bn, s))
		}
		body := env.eval(ax.E)
		if body.T.Sort != SBool {
			efail("axiom body is not boolean")
		}
		if len(binders) == 0 {
			out = body.T
		} else {
			out = T(SBool, fmt.Sprintf("(forall (%s) %s)", strings.Join(binders, " "), body.T.S))
		}
	}()
	return out, err
}
