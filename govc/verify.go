package main

import (
	"fmt"
	"go/types"
	"sort"
	"strings"
	"sync"
	"time"

	"golang.org/x/tools/go/ssa"
)

type FuncReport struct {
	Func        string        `json:"func"`
	Key         string        `json:"key"`
	Arith       string        `json:"arith"`
	Obligations []*OblReport  `json:"obligations"`
	Notes       []string      `json:"abstractions"`
	Assumed     []string      `json:"assumptions"`
	UFs         []string      `json:"uninterpreted_callees"`
	Inlined     []string      `json:"inlined"`
	Error       string        `json:"error,omitempty"`
	GenMs       int64         `json:"gen_ms"`
	ctx         *Ctx
	obls        []*Obligation
	queries     map[*Obligation]string
	Loops       int `json:"loops"`
}

type OblReport struct {
	Name    string `json:"name"`
	Kind    string `json:"kind"`
	Status  string `json:"status"` // discharged | failed | vacuous | covered | cover-unknown | error
	Backend string `json:"backend"`
	Ms      int64  `json:"ms"`
	Where   string `json:"where,omitempty"`
	Detail  string `json:"detail,omitempty"`
	Model   string `json:"model,omitempty"`
	Solver  string `json:"solver_status,omitempty"`
}

// generate builds the obligations of one function under contract.
func generate(prog *ssa.Program, db *ContractDB, fn *ssa.Function, fc *FuncContract) (rep *FuncReport) {
	t0 := time.Now()
	rep = &FuncReport{Func: fn.String(), Key: fc.Key}
	c := newCtx(prog, db, fn, fc)
	rep.ctx = c
	rep.Arith = c.mode
	if c.mode == "int" && !c.checkOvf {
		rep.Arith = "int (machine arithmetic treated as mathematical)"
	} else if c.mode == "int" {
		rep.Arith = "int with no-overflow obligations"
	} else {
		rep.Arith = "64/32/16/8-bit vectors"
	}
	defer func() {
		if r := recover(); r != nil {
			if ee, ok := r.(evalError); ok {
				rep.Error = ee.msg
			} else {
				rep.Error = fmt.Sprintf("engine: %v", r)
				panic(r)
			}
		}
		rep.GenMs = time.Since(t0).Milliseconds()
	}()
	// axioms
	for _, o := range fc.Opaque {
		c.opaque[o] = true
	}
	for _, ax := range db.axioms {
		used := false
		for _, u := range fc.Use {
			if u == ax.Name {
				used = true
			}
		}
		// axioms apply to the functions of the package that states them; other
		// packages (and all lemmas) must name them with `use`
		if !used && (ax.Lemma || ax.Pkg != fc.Pkg) {
			continue
		}
		t, err := c.axiomTerm(ax)
		if err != nil {
			rep.Error = "axiom " + err.Error()
			return
		}
		c.assume(t, false)
	}
	for _, u := range fc.Use {
		found := false
		for _, ax := range db.axioms {
			if ax.Lemma && ax.Name == u {
				found = true
			}
		}
		if !found {
			rep.Error = "use: unknown lemma " + u
			return
		}
	}
	f := c.newFrame(fn, nil)
	rep.Loops = len(f.headers)
	st := &State{heap: map[string]Term{}, alloc: c.constNamed("alloc0", SInt)}
	c.assume(app(SBool, ">=", st.alloc, intLit(0)), false)
	var modelVars []string
	for _, p := range fn.Params {
		v := c.constNamed("p_"+p.Name(), c.sortOf(p.Type()))
		f.vals[p] = v
		f.params[p.Name()] = Val{T: v, GT: p.Type()}
		c.assume(c.valueInv(v, p.Type(), st), false)
		modelVars = append(modelVars, v.S)
	}
	if fn.Signature.Recv() != nil && len(fn.Params) > 0 {
		f.params["self"] = f.params[fn.Params[0].Name()]
	}
	for _, fv := range fn.FreeVars {
		v := c.constNamed("fv_"+fv.Name(), c.sortOf(fv.Type()))
		f.vals[fv] = v
		c.assume(c.valueInv(v, fv.Type(), st), false)
	}
	entry := st.clone()
	env := &Env{c: c, vars: map[string]Val{}, st: entry, old: entry, pkg: f.contractPkg(), local: f.freeVarLookup}
	for k, v := range f.params {
		env.vars[k] = v
	}
	for _, rq := range fc.Requires {
		t, err := env.evalBool(rq.E)
		if err != nil {
			rep.Error = fmt.Sprintf("requires[%s]: %v", rq.Name, err)
			return
		}
		c.assume(t, false)
	}
	// vacuity: the preconditions (with axioms) must be satisfiable
	cov := c.oblige("cover", shortFn(fn)+"#cover:requires", tTrue, tTrue, "")
	cov.Cover = true
	ex := f.run(st, tTrue)
	if ex == nil {
		if len(fc.Ensures) > 0 {
			c.oblige("error", shortFn(fn)+"#ensures", tTrue, tFalse, "function has no reachable return")
		}
	} else {
		cv := c.oblige("cover", shortFn(fn)+"#cover:return", ex.reach, tTrue, "")
		cv.Cover = true
		post := &Env{c: c, vars: map[string]Val{}, st: ex.st, old: entry, pkg: f.contractPkg(), res: f.resLookup, local: f.freeVarLookup}
		for k, v := range f.params {
			post.vars[k] = v
		}
		bindResultNames(post, fc, fn.Signature.Results(), ex.results)
		for _, en := range fc.Ensures {
			if en.Trusted {
				c.assumed[fmt.Sprintf("trusted postcondition %s#%s (used at call sites, not proved from the body)", shortFn(fn), en.Name)] = true
				continue
			}
			t, err := post.evalBool(en.E)
			name := fmt.Sprintf("%s#ensures:%s", shortFn(fn), en.Name)
			if err != nil {
				c.oblige("error", name, ex.reach, tFalse, "contract error: "+err.Error())
				continue
			}
			o := c.oblige("ensures", name, ex.reach, t, en.Line)
			o.ModelVars = modelVars
		}
		f.frameObligations(fc, entry, ex, env)
	}
	rep.obls = c.obls
	for _, o := range c.obls {
		if o.ModelVars == nil {
			o.ModelVars = modelVars
		}
	}
	for k, n := range c.notes {
		rep.Notes = append(rep.Notes, fmt.Sprintf("%s (x%d)", k, n))
	}
	sort.Strings(rep.Notes)
	rep.Assumed = sortedKeys(c.assumed)
	rep.UFs = sortedKeys(c.ufs)
	rep.Inlined = sortedKeys(c.inlined)
	return rep
}

// frameObligations: every heap component not named in `modifies` is unchanged
// on pre-existing objects.
func (f *Frame) frameObligations(fc *FuncContract, entry *State, ex *exitRec, env *Env) {
	c := f.c
	if fc.ModAll {
		return
	}
	name := func(k string) string { return fmt.Sprintf("%s#frame:%s", shortFn(f.fn), c.compName(k)) }
	if fc.ModHeap && ex.st.gepoch != entry.gepoch || !fc.ModHeap && ex.st.epoch != entry.epoch {
		c.oblige("frame", shortFn(f.fn)+"#frame:*", ex.reach, tFalse, "a callee without contract may write anything; declare `modifies all` or give the callee a contract")
		return
	}
	p := callPlan{fc: fc, fn: f.fn, sig: f.fn.Signature, recv: f.fn.Signature.Recv() != nil}
	var args []Val
	for _, prm := range f.fn.Params {
		args = append(args, f.params[prm.Name()])
	}
	menv := f.calleeEnv(p, args, entry, entry)
	menv.local = f.freeVarLookup
	targets, err := f.modTargets(p, menv)
	if err != nil {
		c.oblige("error", shortFn(f.fn)+"#frame", ex.reach, tFalse, "contract error: "+err.Error())
		return
	}
	for _, k := range sortedKeys(c.compSort) {
		if strings.HasPrefix(k, "D|") || (fc.ModHeap && !strings.HasPrefix(k, "X|")) {
			continue
		}
		in, out := c.get(entry, k), c.get(ex.st, k)
		if in.S == out.S {
			continue
		}
		var objs []Term
		whole := false
		for _, t := range targets {
			if t.comp != k {
				continue
			}
			switch {
			case t.obj != nil:
				objs = append(objs, *t.obj)
			case len(t.keys) > 0:
				objs = append(objs, t.keys[0])
			default:
				whole = true
			}
		}
		if whole {
			continue
		}
		s := c.compSort[k]
		if !strings.HasPrefix(string(s), "(Array ") {
			c.oblige("frame", name(k), ex.reach, tEq(in, out), "")
			continue
		}
		ks := keyOfArr(s)
		c.nfresh++
		r := T(ks, fmt.Sprintf("r!q%d", c.nfresh))
		var conds []Term
		if ks == SInt && (!strings.HasPrefix(k, "X|") || c.refKeyedGhost[k]) {
			// (reference 0 is nil, not an object: a ghost attribute "of nil" written by a
			// callee that was handed a nil argument is not part of any object's state)
			conds = append(conds, app(SBool, "<", intLit(0), r), app(SBool, "<=", r, entry.alloc))
		}
		for _, o := range objs {
			conds = append(conds, tNot(tEq(r, o)))
		}
		body := tImp(tAnd(conds...), tEq(app(elemOfArr(s), "select", out, r), app(elemOfArr(s), "select", in, r)))
		c.oblige("frame", name(k), ex.reach, T(SBool, fmt.Sprintf("(forall ((%s %s)) %s)", r.S, ks, body.S)), "")
	}
}

// lemmaObligation builds the query for a lemma (proved from axioms and spec definitions).
func generateLemmas(prog *ssa.Program, db *ContractDB, prop string, anyFn *ssa.Function) *FuncReport {
	rep := &FuncReport{Func: "lemmas", Key: "lemmas"}
	c := newCtx(prog, db, anyFn, &FuncContract{Arith: lemmaArith(db)})
	rep.ctx = c
	rep.Arith = c.mode
	for _, ax := range db.axioms {
		if ax.Lemma {
			continue
		}
		t, err := c.axiomTerm(ax)
		if err != nil {
			rep.Error = "axiom " + err.Error()
			return rep
		}
		c.assume(t, false)
	}
	for _, ax := range db.axioms {
		if !ax.Lemma {
			continue
		}
		ok := false
		for _, p := range ax.Props {
			if p == prop {
				ok = true
			}
		}
		if !ok {
			continue
		}
		t, err := c.axiomTerm(ax)
		if err != nil {
			c.oblige("error", "lemma:"+ax.Name, tTrue, tFalse, "contract error: "+err.Error())
			continue
		}
		c.oblige("lemma", "lemma:"+ax.Name, tTrue, t, ax.Line)
	}
	rep.obls = c.obls
	return rep
}

var lemmaMode = "int"

func lemmaArith(db *ContractDB) string { return lemmaMode }

func buildQuery(c *Ctx, o *Obligation) string {
	var b strings.Builder
	b.WriteString("(set-option :produce-models true)\n(set-logic ALL)\n")
	for _, d := range c.decls {
		b.WriteString(d)
		b.WriteString("\n")
	}
	for _, f := range c.facts {
		if f.seq >= o.Seq {
			break
		}
		b.WriteString("(assert ")
		b.WriteString(f.text)
		b.WriteString(")\n")
	}
	if o.Guard.S != "true" {
		fmt.Fprintf(&b, "(assert %s)\n", o.Guard.S)
	}
	if !o.Cover {
		fmt.Fprintf(&b, "(assert (not %s))\n", o.Cond.S)
	}
	b.WriteString("(check-sat)\n")
	if !o.Cover && len(o.ModelVars) > 0 {
		var vs []string
		for _, v := range o.ModelVars {
			// only scalar-sorted constants are printed
			vs = append(vs, v)
		}
		fmt.Fprintf(&b, "(get-value (%s))\n", strings.Join(vs, " "))
	}
	return b.String()
}

// discharge runs all obligations of the reports in parallel.
func discharge(reps []*FuncReport, timeoutS int, all bool) {
	var wg sync.WaitGroup
	var mu sync.Mutex
	for _, rep := range reps {
		rep := rep
		rep.Obligations = make([]*OblReport, len(rep.obls))
		for i, o := range rep.obls {
			i, o := i, o
			wg.Add(1)
			go func() {
				defer wg.Done()
				or := &OblReport{Name: o.Name, Kind: o.Kind, Where: o.Where}
				if o.Kind == "error" {
					or.Status = "error"
					or.Detail = o.Where
					mu.Lock()
					rep.Obligations[i] = or
					mu.Unlock()
					return
				}
				q := buildQuery(rep.ctx, o)
				if len(q) > 8<<20 {
					or.Status = "failed"
					or.Detail = fmt.Sprintf("query too large (%d bytes)", len(q))
					mu.Lock()
					rep.Obligations[i] = or
					mu.Unlock()
					return
				}
				to := timeoutS
				if o.Cover && to > 4 {
					// satisfiability of quantified assumption sets is often
					// undecided; a cover that is not refuted quickly is reported
					// as cover-unknown, never as a failure
					to = 4
				}
				res := runQuery(o.Name, q, to, all && !o.Cover, nil)
				or.Backend, or.Ms, or.Solver = res.Backend, res.Ms, res.Status
				if o.Cover {
					switch res.Status {
					case "sat":
						or.Status = "covered"
					case "unsat":
						or.Status = "vacuous"
						or.Detail = "assumptions are contradictory at this point"
					default:
						or.Status = "cover-unknown"
					}
				} else {
					switch res.Status {
					case "unsat":
						or.Status = "discharged"
					case "sat":
						or.Status = "failed"
						or.Model = strings.TrimSpace(res.Model)
					default:
						or.Status = "failed"
						or.Detail = firstLines(res.Raw, 12)
					}
				}
				mu.Lock()
				rep.Obligations[i] = or
				mu.Unlock()
			}()
		}
	}
	wg.Wait()
}

var _ = types.Typ
