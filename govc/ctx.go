package main

import (
	"fmt"
	"go/constant"
	"go/types"
	"sort"
	"strings"

	"golang.org/x/tools/go/ssa"
)

// Fact is an assumption or definition emitted during symbolic execution, in
// program (topological) order.
type Fact struct {
	seq  int
	text string // SMT assert body
	def  bool   // definitional equality of a fresh constant
}

type Obligation struct {
	Name   string // e.g. "varintLen#ensures:wire_len"
	Kind   string // ensures | pre | inv-entry | inv-preserve | nopanic | overflow | site | frame | cover
	Seq    int    // facts with seq < Seq are visible
	Guard  Term   // reachability of the program point
	Cond   Term   // what must hold
	Where  string // source position
	Cover  bool   // cover obligation: query "Guard" must be SAT
	Result *SolverResult
	Fn     string
	// names of model constants worth printing in a counterexample
	ModelVars []string
}

// Ctx is the verification context of one function under contract.
type Ctx struct {
	prog     *ssa.Program
	db       *ContractDB
	mode     string // "bv" or "int"
	checkOvf bool   // int mode: generate overflow obligations
	top      *ssa.Function
	fnNonNil map[string]bool // function constants already assumed non-nil
	fc       *FuncContract

	decls    []string
	declared map[string]bool
	facts    []Fact
	seq      int
	obls     []*Obligation
	nfresh   int

	structs  map[string]*structInfo
	compSort map[string]Sort
	strLits  map[string]Term
	typeTags map[string]int
	notes    map[string]int // abstractions performed -> count
	assumed  map[string]bool
	safety   map[string]bool
	ufs      map[string]bool
	inlined  map[string]bool
	frames   int
	oblNames map[string]int
	opaque   map[string]bool
	// objects allocated by the function whose reference has not been stored
	// or passed anywhere yet (cannot alias anything read from the heap)
	unescaped map[string]Term
	// ghost components whose first key is an object reference
	refKeyedGhost map[string]bool
	unescapedT    map[string]types.Type // pointee type of each unescaped allocation
	compIDs       map[string]int
}

type structInfo struct {
	name   string
	sort   Sort
	fields []structField
	st     *types.Struct
}
type structField struct {
	name string
	acc  string
	sort Sort
	typ  types.Type
}

func newCtx(prog *ssa.Program, db *ContractDB, fn *ssa.Function, fc *FuncContract) *Ctx {
	c := &Ctx{prog: prog, db: db, top: fn, fc: fc, mode: "int",
		declared: map[string]bool{}, structs: map[string]*structInfo{}, compSort: map[string]Sort{},
		strLits: map[string]Term{}, typeTags: map[string]int{}, notes: map[string]int{}, assumed: map[string]bool{},
		safety: map[string]bool{}, ufs: map[string]bool{}, inlined: map[string]bool{}, opaque: map[string]bool{}, unescaped: map[string]Term{}, refKeyedGhost: map[string]bool{}, unescapedT: map[string]types.Type{}}
	if fc != nil && fc.Arith != "" {
		switch fc.Arith {
		case "bv":
			c.mode = "bv"
		case "int":
			c.mode = "int"
			c.checkOvf = true
		case "int-assumed":
			c.mode = "int"
		}
	}
	if fc != nil {
		for _, s := range fc.Safety {
			c.safety[s] = true
		}
	}
	c.prelude()
	return c
}

// I is the sort of Go's int in the current mode.
func (c *Ctx) I() Sort {
	if c.mode == "bv" {
		return bvSort(64)
	}
	return SInt
}

func (c *Ctx) prelude() {
	c.decls = append(c.decls,
		"(declare-sort Str 0)",
		"(declare-sort Iface 0)",
		fmt.Sprintf("(declare-datatypes ((Slice 0)) (((mk_Slice (sl_arr Int) (sl_off %s) (sl_len %s) (sl_cap %s)))))", c.I(), c.I(), c.I()),
		fmt.Sprintf("(declare-fun str_len (Str) %s)", c.I()),
		"(declare-const str_empty Str)",
		"(declare-const nil_iface Iface)",
		"(declare-fun typeof (Iface) Int)",
		"(declare-fun iface_ref (Iface) Int)",
	)
	c.assume(tEq(app(c.I(), "str_len", T(SStr, "str_empty")), c.intConst(0, c.I())), false)
	c.assume(tEq(app(SInt, "typeof", T(SIface, "nil_iface")), intLit(0)), false)
	c.strLits[""] = T(SStr, "str_empty")
}

func (c *Ctx) note(s string) { c.notes[s]++ }

func (c *Ctx) declare(name string, line string) {
	if c.declared[name] {
		return
	}
	c.declared[name] = true
	c.decls = append(c.decls, line)
}

func (c *Ctx) fresh(hint string, s Sort) Term {
	c.nfresh++
	name := fmt.Sprintf("%s!%d", sanitize(hint), c.nfresh)
	c.decls = append(c.decls, fmt.Sprintf("(declare-const %s %s)", name, s))
	return T(s, name)
}

func (c *Ctx) constNamed(name string, s Sort) Term {
	name = sanitize(name)
	c.declare(name, fmt.Sprintf("(declare-const %s %s)", name, s))
	return T(s, name)
}

// define introduces a named constant equal to t (keeps terms small).
func (c *Ctx) define(hint string, t Term) Term {
	if len(t.S) < 40 && !strings.Contains(t.S, "ite") {
		return t
	}
	v := c.fresh(hint, t.Sort)
	c.seq++
	c.facts = append(c.facts, Fact{seq: c.seq, text: tEq(v, t).S, def: true})
	return v
}

func (c *Ctx) assume(t Term, def bool) {
	if t.S == "true" {
		return
	}
	c.seq++
	c.facts = append(c.facts, Fact{seq: c.seq, text: t.S, def: def})
}

func (c *Ctx) oblige(kind, name string, guard, cond Term, where string) *Obligation {
	c.seq++
	if c.oblNames == nil {
		c.oblNames = map[string]int{}
	}
	c.oblNames[name]++
	if n := c.oblNames[name]; n > 1 {
		name = fmt.Sprintf("%s~%d", name, n)
	}
	o := &Obligation{Name: name, Kind: kind, Seq: c.seq, Guard: guard, Cond: cond, Where: where, Fn: c.top.String()}
	c.obls = append(c.obls, o)
	return o
}

func sanitize(s string) string {
	var b strings.Builder
	for _, r := range s {
		switch {
		case r >= 'a' && r <= 'z', r >= 'A' && r <= 'Z', r >= '0' && r <= '9', r == '_', r == '.', r == '$', r == '!':
			b.WriteRune(r)
		default:
			b.WriteRune('_')
		}
	}
	out := b.String()
	if out == "" || (out[0] >= '0' && out[0] <= '9') {
		out = "x" + out
	}
	return out
}

// ---------------------------------------------------------------------------
// Go types -> SMT sorts

func intInfo(t types.Type) (width int, signed bool, ok bool) {
	b, isb := t.Underlying().(*types.Basic)
	if !isb {
		return
	}
	switch b.Kind() {
	case types.Int, types.Int64, types.UntypedInt, types.UntypedRune:
		return 64, true, true
	case types.Int32:
		return 32, true, true
	case types.Int16:
		return 16, true, true
	case types.Int8:
		return 8, true, true
	case types.Uint, types.Uint64, types.Uintptr:
		return 64, false, true
	case types.Uint32:
		return 32, false, true
	case types.Uint16:
		return 16, false, true
	case types.Uint8:
		return 8, false, true
	}
	return
}

func (c *Ctx) sortOf(t types.Type) Sort {
	switch u := t.Underlying().(type) {
	case *types.Basic:
		if u.Info()&types.IsBoolean != 0 {
			return SBool
		}
		if w, _, ok := intInfo(u); ok {
			if c.mode == "bv" {
				return bvSort(w)
			}
			return SInt
		}
		if u.Info()&types.IsString != 0 {
			return SStr
		}
		if u.Info()&types.IsFloat != 0 {
			c.declare("Float", "(declare-sort Float 0)")
			return "Float"
		}
		if u.Kind() == types.UnsafePointer {
			return SInt
		}
		if u.Kind() == types.UntypedNil {
			return SInt
		}
		c.declare("Opaque", "(declare-sort Opaque 0)")
		return "Opaque"
	case *types.Pointer, *types.Map, *types.Chan, *types.Signature:
		return SInt
	case *types.Slice:
		return SSlice
	case *types.Interface:
		return SIface
	case *types.Struct:
		return c.structOf(t).sort
	case *types.Array:
		return arrSort(c.I(), c.sortOf(u.Elem()))
	case *types.Tuple:
		return "Tuple"
	case *types.TypeParam:
		c.declare("TP_"+sanitize(u.String()), fmt.Sprintf("(declare-sort TP_%s 0)", sanitize(u.String())))
		return Sort("TP_" + sanitize(u.String()))
	}
	c.declare("Opaque", "(declare-sort Opaque 0)")
	return "Opaque"
}

func typeKey(t types.Type) string {
	return types.TypeString(t, func(p *types.Package) string { return p.Path() })
}

func (c *Ctx) structOf(t types.Type) *structInfo {
	key := typeKey(t)
	if _, ok := t.(*types.Named); !ok {
		key = typeKey(t.Underlying())
	}
	if si, ok := c.structs[key]; ok {
		return si
	}
	st := t.Underlying().(*types.Struct)
	short := key
	if n, ok := t.(*types.Named); ok {
		short = n.Obj().Name()
	} else {
		short = "anon"
	}
	name := fmt.Sprintf("S%d_%s", len(c.structs), sanitize(short))
	si := &structInfo{name: name, sort: Sort(name), st: st}
	c.structs[key] = si
	for i := 0; i < st.NumFields(); i++ {
		f := st.Field(i)
		si.fields = append(si.fields, structField{name: f.Name(), acc: fmt.Sprintf("%s_f%d_%s", name, i, sanitize(f.Name())), sort: c.sortOf(f.Type()), typ: f.Type()})
	}
	var b strings.Builder
	fmt.Fprintf(&b, "(declare-datatypes ((%s 0)) (((mk_%s", name, name)
	for _, f := range si.fields {
		fmt.Fprintf(&b, " (%s %s)", f.acc, f.sort)
	}
	if len(si.fields) == 0 {
		// SMT-LIB allows nullary constructors
		b.Reset()
		fmt.Fprintf(&b, "(declare-datatypes ((%s 0)) (((mk_%s", name, name)
	}
	b.WriteString("))))")
	c.decls = append(c.decls, b.String())
	return si
}

func (c *Ctx) mkStruct(si *structInfo, vals []Term) Term {
	if len(si.fields) == 0 {
		return T(si.sort, "mk_"+si.name)
	}
	return app(si.sort, "mk_"+si.name, vals...)
}
func (c *Ctx) getField(si *structInfo, v Term, i int) Term {
	return app(si.fields[i].sort, si.fields[i].acc, v)
}
func (c *Ctx) setField(si *structInfo, v Term, i int, nv Term) Term {
	vals := make([]Term, len(si.fields))
	for j := range si.fields {
		if j == i {
			vals[j] = nv
		} else {
			vals[j] = c.getField(si, v, j)
		}
	}
	return c.mkStruct(si, vals)
}

func (c *Ctx) intConst(n int64, s Sort) Term {
	if w, ok := s.isBV(); ok {
		var u uint64 = uint64(n)
		if w < 64 {
			u &= (1 << uint(w)) - 1
		}
		return T(s, fmt.Sprintf("(_ bv%d %d)", u, w))
	}
	return intLit(n)
}
func (c *Ctx) uintConst(u uint64, s Sort) Term {
	if w, ok := s.isBV(); ok {
		if w < 64 {
			u &= (1 << uint(w)) - 1
		}
		return T(s, fmt.Sprintf("(_ bv%d %d)", u, w))
	}
	return T(SInt, fmt.Sprintf("%d", u))
}

func (c *Ctx) zero(t types.Type) Term {
	s := c.sortOf(t)
	switch u := t.Underlying().(type) {
	case *types.Basic:
		if s == SBool {
			return tFalse
		}
		if _, _, ok := intInfo(u); ok {
			return c.intConst(0, s)
		}
		if s == SStr {
			return T(SStr, "str_empty")
		}
		if s == SInt {
			return intLit(0)
		}
	case *types.Pointer, *types.Map, *types.Chan, *types.Signature:
		return intLit(0)
	case *types.Slice:
		return c.nilSlice()
	case *types.Interface:
		return T(SIface, "nil_iface")
	case *types.Struct:
		si := c.structOf(t)
		vals := make([]Term, len(si.fields))
		for i, f := range si.fields {
			vals[i] = c.zero(f.typ)
		}
		return c.mkStruct(si, vals)
	case *types.Array:
		return c.constArray(s, c.zero(u.Elem()))
	}
	name := "zero_" + sanitize(string(s))
	return c.constNamed(name, s)
}

func (c *Ctx) nilSlice() Term {
	z := c.intConst(0, c.I())
	return app(SSlice, "mk_Slice", intLit(0), z, z, z)
}

func (c *Ctx) strLit(s string) Term {
	if t, ok := c.strLits[s]; ok {
		return t
	}
	t := c.constNamed(fmt.Sprintf("strlit%d", len(c.strLits)), SStr)
	// distinct from all previous literals, with known length
	for _, o := range c.strLits {
		c.assume(tNot(tEq(t, o)), false)
	}
	c.assume(tEq(app(c.I(), "str_len", t), c.intConst(int64(len(s)), c.I())), false)
	c.strLits[s] = t
	return t
}

func (c *Ctx) typeTag(t types.Type) Term {
	k := typeKey(t)
	if n, ok := c.typeTags[k]; ok {
		return intLit(int64(n))
	}
	n := len(c.typeTags) + 1
	c.typeTags[k] = n
	return intLit(int64(n))
}

// box / unbox for interface values
func (c *Ctx) box(v Term, t types.Type) Term {
	s := c.sortOf(t)
	fn := "box_" + sanitize(string(s))
	un := "unbox_" + sanitize(string(s))
	c.declare(fn, fmt.Sprintf("(declare-fun %s (%s Int) Iface)", fn, s))
	c.declare(un, fmt.Sprintf("(declare-fun %s (Iface) %s)", un, s))
	tag := c.typeTag(t)
	b := app(SIface, fn, v, tag)
	c.assume(tAnd(tEq(app(SInt, "typeof", b), tag), tEq(app(s, un, b), v)), false)
	return b
}
func (c *Ctx) unbox(i Term, t types.Type) Term {
	s := c.sortOf(t)
	fn := "box_" + sanitize(string(s))
	un := "unbox_" + sanitize(string(s))
	c.declare(fn, fmt.Sprintf("(declare-fun %s (%s Int) Iface)", fn, s))
	c.declare(un, fmt.Sprintf("(declare-fun %s (Iface) %s)", un, s))
	return app(s, un, i)
}

func (c *Ctx) constTerm(k *ssa.Const) Term {
	t := k.Type()
	s := c.sortOf(t)
	if k.Value == nil {
		return c.zero(t)
	}
	switch k.Value.Kind() {
	case constant.Bool:
		if constant.BoolVal(k.Value) {
			return tTrue
		}
		return tFalse
	case constant.String:
		return c.strLit(constant.StringVal(k.Value))
	case constant.Int:
		if _, signed, ok := intInfo(t); ok {
			if signed {
				n, _ := constant.Int64Val(k.Value)
				return c.intConst(n, s)
			}
			u, _ := constant.Uint64Val(k.Value)
			return c.uintConst(u, s)
		}
	}
	c.note("const of unsupported kind " + k.Value.Kind().String())
	return c.fresh("const", s)
}

// typeRange returns the in-range predicate of an integer-typed term in int mode.
func (c *Ctx) typeRange(v Term, t types.Type) Term {
	if c.mode != "int" {
		return tTrue
	}
	w, signed, ok := intInfo(t)
	if !ok {
		return tTrue
	}
	lo, hi := intBounds(w, signed)
	return tAnd(app(SBool, "<=", T(SInt, lo), v), app(SBool, "<=", v, T(SInt, hi)))
}

func intBounds(w int, signed bool) (string, string) {
	if signed {
		switch w {
		case 64:
			return "(- 9223372036854775808)", "9223372036854775807"
		case 32:
			return "(- 2147483648)", "2147483647"
		case 16:
			return "(- 32768)", "32767"
		case 8:
			return "(- 128)", "127"
		}
	}
	switch w {
	case 64:
		return "0", "18446744073709551615"
	case 32:
		return "0", "4294967295"
	case 16:
		return "0", "65535"
	}
	return "0", "255"
}

func sortedKeys[V any](m map[string]V) []string {
	var ks []string
	for k := range m {
		ks = append(ks, k)
	}
	sort.Strings(ks)
	return ks
}
