package blockservice

// Replay for obligation getBlock#ensures:cid_matches (property C05, also the
// C04 "never stores a rejected CID" clause on the exchange path): an exchange
// that answers GetBlock(c) with some other block makes the block service
// return and store a block whose CID is not the requested one.

import (
	"context"
	"testing"

	blockstore "github.com/ipfs/boxo/blockstore"
	"github.com/ipfs/boxo/exchange"
	blocks "github.com/ipfs/go-block-format"
	cid "github.com/ipfs/go-cid"
	ds "github.com/ipfs/go-datastore"
	dssync "github.com/ipfs/go-datastore/sync"
)

type verifWrongExchange struct {
	exchange.Interface
	answer blocks.Block
}

func (e *verifWrongExchange) GetBlock(ctx context.Context, c cid.Cid) (blocks.Block, error) {
	return e.answer, nil
}

func (e *verifWrongExchange) GetBlocks(ctx context.Context, ks []cid.Cid) (<-chan blocks.Block, error) {
	ch := make(chan blocks.Block, 1)
	ch <- e.answer
	close(ch)
	return ch, nil
}

func (e *verifWrongExchange) NotifyNewBlocks(ctx context.Context, blks ...blocks.Block) error {
	return nil
}
func (e *verifWrongExchange) Close() error { return nil }

func TestVerifReplayC05WrongBlock(t *testing.T) {
	ctx := context.Background()
	bstore := blockstore.NewBlockstore(dssync.MutexWrap(ds.NewMapDatastore()))
	wanted := blocks.NewBlock([]byte("the block that was asked for"))
	other := blocks.NewBlock([]byte("some other block"))
	bs := New(bstore, &verifWrongExchange{answer: other})
	got, err := bs.GetBlock(ctx, wanted.Cid())
	if err != nil {
		return // rejecting is fine
	}
	if !got.Cid().Equals(wanted.Cid()) {
		t.Fatalf("VERIF-FAIL C05: GetBlock(%s) returned block %s obtained from the exchange", wanted.Cid(), got.Cid())
	}
}

func TestVerifReplayC05WrongBlocks(t *testing.T) {
	ctx := context.Background()
	bstore := blockstore.NewBlockstore(dssync.MutexWrap(ds.NewMapDatastore()))
	wanted := blocks.NewBlock([]byte("the block that was asked for"))
	other := blocks.NewBlock([]byte("some other block"))
	bs := New(bstore, &verifWrongExchange{answer: other})
	for got := range bs.GetBlocks(ctx, []cid.Cid{wanted.Cid()}) {
		if !got.Cid().Equals(wanted.Cid()) {
			t.Fatalf("VERIF-FAIL C05: GetBlocks([%s]) emitted unrequested block %s obtained from the exchange", wanted.Cid(), got.Cid())
		}
	}
}
