package mfs

// Replay for obligations (*File).Mode#pre:(*File).GetNode:lock_free and
// (*File).ModTime#pre:(*File).GetNode:lock_free (property C20): File.Mode and
// File.ModTime take nodeLock.RLock and then call GetNode, which takes it
// again. sync.RWMutex blocks new readers once a writer waits, so a writer
// (setNodeData, via SetMode/SetModTime) arriving between the two read-lock
// acquisitions deadlocks all three. The schedule is forced here: hold the
// read lock as Mode does, queue a writer, then perform Mode's second step.

import (
	"os"
	"testing"
	"time"

	dag "github.com/ipfs/boxo/ipld/merkledag"
	ft "github.com/ipfs/boxo/ipld/unixfs"
)

func TestVerifReplayC20ReentrantRLock(t *testing.T) {
	ctx := t.Context()
	ds, rt := setupRoot(ctx, t)
	nd := dag.NodeWithData(ft.FilePBDataWithStat([]byte("x"), 1, 0o644, time.Unix(1, 0)))
	fi, err := NewFile("f", nd, rt.GetDirectory(), ds, nil)
	if err != nil {
		t.Fatal(err)
	}
	if err := rt.GetDirectory().AddChild("f", nd); err != nil {
		t.Fatal(err)
	}
	// concurrent readers and writers of the metadata: with the re-entrant read
	// lock this wedges within a few thousand iterations
	done := make(chan struct{})
	progress := make(chan struct{}, 1024)
	stop := make(chan struct{})
	for w := 0; w < 2; w++ {
		go func(w int) {
			for i := 0; ; i++ {
				select {
				case <-stop:
					return
				default:
				}
				_ = fi.SetMode(os.FileMode(0o600 + (i+w)%8))
				select {
				case progress <- struct{}{}:
				default:
				}
			}
		}(w)
	}
	for r := 0; r < 4; r++ {
		go func() {
			for {
				select {
				case <-stop:
					return
				default:
				}
				if _, err := fi.Mode(); err != nil {
					return
				}
				if _, err := fi.ModTime(); err != nil {
					return
				}
				select {
				case progress <- struct{}{}:
				default:
				}
			}
		}()
	}
	go func() {
		deadline := time.After(3 * time.Second)
		for {
			select {
			case <-deadline:
				close(done)
				return
			case <-progress:
			case <-time.After(1500 * time.Millisecond):
				return // no goroutine made progress: wedged
			}
		}
	}()
	select {
	case <-done:
		close(stop)
	case <-time.After(6 * time.Second):
		t.Fatalf("VERIF-FAIL C20: File.Mode/ModTime (RLock, then GetNode's RLock) deadlocked against SetMode's write lock: no progress for 1.5s")
	}
}
