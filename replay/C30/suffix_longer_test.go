package gateway

// Replay for obligation gateway.seekToRangeStart#ensures:every_other_range_seeks (property C30):
// a suffix range longer than the file ("bytes=-9" on a 5-byte file) selects the whole file
// (RFC 7233 section 2.1); it must not be an error.

import (
	"bytes"
	"io"
	"testing"
)

func TestVerifReplayC30SuffixLongerThanFile(t *testing.T) {
	rd := bytes.NewReader([]byte("fnord"))
	if _, err := rd.Seek(3, io.SeekStart); err != nil {
		t.Fatal(err)
	}
	if err := seekToRangeStart(rd, &ByteRange{From: -9}, 5); err != nil {
		t.Fatalf("VERIF-FAIL C30: suffix range -9 on a 5-byte file is refused: %v", err)
	}
	rest, _ := io.ReadAll(rd)
	if string(rest) != "fnord" {
		t.Fatalf("VERIF-FAIL C30: after positioning for suffix range -9 the reader yields %q, want the whole file", rest)
	}
}
