package mfs

// Replay for obligation mfs.Mv#site:skip_unlink_only_for_same_entry (property C19):
// moving /a/x/f to /b/x/f (two different directories that share the name "x")
// must remove the source entry.

import (
	"testing"

	dag "github.com/ipfs/boxo/ipld/merkledag"
	ft "github.com/ipfs/boxo/ipld/unixfs"
)

func TestVerifReplayC19MvSameDirName(t *testing.T) {
	ctx := t.Context()
	_, rt := setupRoot(ctx, t)
	for _, d := range []string{"/a/x", "/b/x"} {
		if err := Mkdir(rt, d, MkdirOpts{Mkparents: true, Flush: true}); err != nil {
			t.Fatal(err)
		}
	}
	nd := dag.NodeWithData(ft.FilePBData([]byte("content"), 7))
	if err := PutNode(rt, "/a/x/f", nd); err != nil {
		t.Fatal(err)
	}
	if err := Mv(rt, "/a/x/f", "/b/x/f"); err != nil {
		t.Fatal(err)
	}
	if _, err := Lookup(rt, "/b/x/f"); err != nil {
		t.Fatalf("destination missing after Mv: %v", err)
	}
	if _, err := Lookup(rt, "/a/x/f"); err == nil {
		t.Fatalf("VERIF-FAIL C19: Mv(/a/x/f, /b/x/f) succeeded but the source /a/x/f still exists")
	}
}
