package mfs

// Replay for obligation mfs.Mv#site:never_into_the_moved_directory (property C19):
// a move whose destination resolves to the moved directory itself must not make
// the directory disappear.

import (
	"context"
	"testing"

	cid "github.com/ipfs/go-cid"
)

func TestVerifReplayC19MvIntoItself(t *testing.T) {
	ctx := context.Background()
	ds := getDagserv(t)
	for _, mv := range [][2]string{{"/b/x", "/b/"}, {"/b/x", "/b/x"}, {"/b", "/b/x/"}, {"/b", "/b/x/y"}} {
		rt, err := NewRoot(ctx, ds, emptyDirNode(), func(context.Context, cid.Cid) error { return nil }, nil)
		if err != nil {
			t.Fatal(err)
		}
		if err := Mkdir(rt, "/b/x", MkdirOpts{Mkparents: true}); err != nil {
			t.Fatal(err)
		}
		err = Mv(rt, mv[0], mv[1])
		if _, lerr := Lookup(rt, "/b/x"); lerr != nil {
			t.Fatalf("VERIF-FAIL C19: Mv(%s, %s) answered err=%v and /b/x no longer exists: %v", mv[0], mv[1], err, lerr)
		}
	}
}
