package dspinner

// Replay for obligation (*pinner).doPinRecursive#ensures:error_frame (property C22,
// "failed calls change nothing"): a recursively pinned root is pinned again (e.g.
// to rename the pin) while one of its child blocks is missing; the fetch fails,
// Pin returns the error - and the root is no longer pinned.

import (
	"context"
	"testing"

	bs "github.com/ipfs/boxo/blockservice"
	blockstore "github.com/ipfs/boxo/blockstore"
	offline "github.com/ipfs/boxo/exchange/offline"
	mdag "github.com/ipfs/boxo/ipld/merkledag"
	ds "github.com/ipfs/go-datastore"
	dssync "github.com/ipfs/go-datastore/sync"
)

func TestVerifReplayC22RepinFetchFails(t *testing.T) {
	ctx := context.Background()
	dstore := dssync.MutexWrap(ds.NewMapDatastore())
	bstore := blockstore.NewBlockstore(dstore)
	bserv := bs.New(bstore, offline.Exchange(bstore))
	dserv := mdag.NewDAGService(bserv)
	p, err := New(ctx, dstore, dserv)
	if err != nil {
		t.Fatal(err)
	}
	child, childCid := randNode()
	root, _ := randNode()
	if err := root.AddNodeLink("child", child); err != nil {
		t.Fatal(err)
	}
	if err := dserv.Add(ctx, child); err != nil {
		t.Fatal(err)
	}
	if err := dserv.Add(ctx, root); err != nil {
		t.Fatal(err)
	}
	if err := p.Pin(ctx, root, true, "first"); err != nil {
		t.Fatal(err)
	}
	assertPinned(t, p, root.Cid(), "root must be pinned after the first Pin")
	// the child block disappears (e.g. corrupted / removed behind the pinner's back)
	if err := bstore.DeleteBlock(ctx, childCid); err != nil {
		t.Fatal(err)
	}
	err = p.Pin(ctx, root, true, "second")
	if err == nil {
		t.Skip("re-pin unexpectedly succeeded")
	}
	_, pinned, perr := p.IsPinned(ctx, root.Cid())
	if perr != nil {
		t.Fatal(perr)
	}
	if !pinned {
		t.Fatalf("VERIF-FAIL C22: Pin(root, recursive) failed (%v) and the existing recursive pin of root is gone", err)
	}
}
