package io

// Replay for obligation (*DynamicDirectory).AddChild#ensures:threshold_kept
// (property C16): a per-directory HAMT sharding threshold must survive the
// HAMT -> basic conversion performed by AddChild (replacing an entry can
// shrink the directory below the threshold).

import (
	"context"
	"fmt"
	"testing"

	mdtest "github.com/ipfs/boxo/ipld/merkledag/test"
	ft "github.com/ipfs/boxo/ipld/unixfs"
)

func TestVerifReplayC16ThresholdKept(t *testing.T) {
	ctx := context.Background()
	ds := mdtest.Mock()
	child := ft.EmptyDirNode()
	if err := ds.Add(ctx, child); err != nil {
		t.Fatal(err)
	}
	dir, err := NewDirectory(ds, WithSizeEstimationMode(SizeEstimationLinks))
	if err != nil {
		t.Fatal(err)
	}
	dd := dir.(*DynamicDirectory)
	const threshold = 300
	dd.Directory.(*BasicDirectory).SetHAMTShardingSize(threshold)
	// grow past the per-directory threshold: becomes a HAMT
	long := "a-rather-long-entry-name-to-grow-the-estimate-quickly-"
	for i := 0; i < 6; i++ {
		if err := dd.AddChild(ctx, fmt.Sprintf("%s%d", long, i), child); err != nil {
			t.Fatal(err)
		}
	}
	h, ok := dd.Directory.(*HAMTDirectory)
	if !ok {
		t.Fatalf("expected a HAMT directory above the threshold")
	}
	if h.GetHAMTShardingSize() != threshold {
		t.Fatalf("VERIF-FAIL C16: threshold lost on basic->HAMT conversion: %d", h.GetHAMTShardingSize())
	}
	// shrink: remove all but two entries while staying a HAMT is possible; then
	// an AddChild that overwrites an entry triggers the HAMT -> basic switch
	for i := 0; i < 6; i++ {
		if _, isH := dd.Directory.(*HAMTDirectory); !isH {
			break
		}
		if i < 4 {
			// RemoveChild keeps the threshold (control)
			continue
		}
	}
	// Force the AddChild path: mark every existing entry but one as removed through
	// the HAMT directly so that the next AddChild sees a small directory.
	for i := 1; i < 6; i++ {
		if err := h.RemoveChild(ctx, fmt.Sprintf("%s%d", long, i)); err != nil {
			t.Fatal(err)
		}
	}
	if err := dd.AddChild(ctx, long+"0", child); err != nil {
		t.Fatal(err)
	}
	b, ok := dd.Directory.(*BasicDirectory)
	if !ok {
		t.Skip("AddChild did not switch back to a basic directory in this configuration")
	}
	if got := b.GetHAMTShardingSize(); got != threshold {
		t.Fatalf("VERIF-FAIL C16: per-directory HAMT threshold %d became %d after the HAMT->basic switch in AddChild", threshold, got)
	}
}
