package io

// Replay for obligation (*HAMTDirectory).needsToSwitchToBasicDir#ensures:basic_iff_rule
// (property C16), second scenario: the size of the entry being removed or replaced must be the
// size of the entry as the documented rule counts it (its name), not of the shard's internal
// link, whose name carries the two-character slot prefix. With the prefix counted, a removal that
// leaves the estimate one or two bytes ABOVE the threshold converts the HAMT to a basic
// directory, which a fresh build of the same entries shards.

import (
	"context"
	"fmt"
	"testing"

	mdtest "github.com/ipfs/boxo/ipld/merkledag/test"
	ft "github.com/ipfs/boxo/ipld/unixfs"
)

func TestVerifReplayC16EntrySizedByName(t *testing.T) {
	ctx := context.Background()
	ds := mdtest.Mock()
	child := ft.EmptyDirNode()
	if err := ds.Add(ctx, child); err != nil {
		t.Fatal(err)
	}
	build := func(threshold int, names ...string) *DynamicDirectory {
		dir, err := NewDirectory(ds, WithSizeEstimationMode(SizeEstimationLinks), WithMaxHAMTFanout(8))
		if err != nil {
			t.Fatal(err)
		}
		dd := dir.(*DynamicDirectory)
		dd.Directory.(*BasicDirectory).SetHAMTShardingSize(threshold)
		for _, n := range names {
			if err := dd.AddChild(ctx, n, child); err != nil {
				t.Fatal(err)
			}
		}
		return dd
	}
	// links mode: "a" and "b" count 35 bytes each, "cc" 36. Threshold 70: {a,b} is basic, {a,b,cc} a HAMT,
	// and {b,cc} = 71 is still above the threshold.
	edited := build(70, "a", "b", "cc")
	if _, ok := edited.Directory.(*HAMTDirectory); !ok {
		t.Fatal("expected a HAMT with three entries")
	}
	if err := edited.RemoveChild(ctx, "a"); err != nil {
		t.Fatal(err)
	}
	fresh := build(70, "b", "cc")
	got, err := edited.GetNode()
	if err != nil {
		t.Fatal(err)
	}
	want, err := fresh.GetNode()
	if err != nil {
		t.Fatal(err)
	}
	if !got.Cid().Equals(want.Cid()) {
		fmt.Printf("VERIF-FAIL C16: entries {b,cc} have estimated size 71 > threshold 70; after removing \"a\" from the HAMT the directory is a %T with root %s, a fresh build is a %T with root %s\n",
			edited.Directory, got.Cid(), fresh.Directory, want.Cid())
		t.Fail()
	}
	// the running size change must come back to its starting value after add, replace, remove
	h, err := NewHAMTDirectory(ds, 0)
	if err != nil {
		t.Fatal(err)
	}
	for _, step := range []func() error{
		func() error { return h.AddChild(ctx, "abc", child) },
		func() error { return h.AddChild(ctx, "abc", child) },
		func() error { return h.RemoveChild(ctx, "abc") },
	} {
		if err := step(); err != nil {
			t.Fatal(err)
		}
	}
	if h.sizeChange != 0 {
		fmt.Printf("VERIF-FAIL C16: HAMTDirectory.sizeChange is %d after adding, replacing and removing one entry (expected 0)\n", h.sizeChange)
		t.Fail()
	}
}
