package io

// Replay for obligation (*HAMTDirectory).needsToSwitchToBasicDir#ensures:basic_iff_rule
// (property C16): the directory is sharded exactly when the estimated size is above the
// threshold (or the link count above MaxLinks). A directory that became a HAMT because one add
// took it over the threshold must go back to basic as soon as an edit takes the estimate back
// to the threshold or below - also when the removed entry is smaller than the entry that
// triggered the conversion - and then has the root CID of a fresh build of the same entries.

import (
	"context"
	"fmt"
	"testing"

	mdtest "github.com/ipfs/boxo/ipld/merkledag/test"
	ft "github.com/ipfs/boxo/ipld/unixfs"
	ipld "github.com/ipfs/go-ipld-format"
)

func TestVerifReplayC16ShardedIffRule(t *testing.T) {
	ctx := context.Background()
	ds := mdtest.Mock()
	child := ft.EmptyDirNode()
	if err := ds.Add(ctx, child); err != nil {
		t.Fatal(err)
	}
	long := "a-name-of-some-length-"
	for _, mode := range []SizeEstimationMode{SizeEstimationLinks, SizeEstimationBlock} {
		for _, maxLinks := range []int{0, 2} {
			build := func(names ...string) (*DynamicDirectory, ipld.Node) {
				opts := []DirectoryOption{WithSizeEstimationMode(mode), WithMaxHAMTFanout(8)}
				if maxLinks > 0 {
					opts = append(opts, WithMaxLinks(maxLinks))
				}
				dir, err := NewDirectory(ds, opts...)
				if err != nil {
					t.Fatal(err)
				}
				dd := dir.(*DynamicDirectory)
				// links mode: "a" and "b" are 35 each, the long name is 56; block mode adds a few bytes per link
				dd.Directory.(*BasicDirectory).SetHAMTShardingSize(map[SizeEstimationMode]int{SizeEstimationLinks: 110, SizeEstimationBlock: 125}[mode])
				for _, n := range names {
					if err := dd.AddChild(ctx, n, child); err != nil {
						t.Fatal(err)
					}
				}
				nd, err := dd.GetNode()
				if err != nil {
					t.Fatal(err)
				}
				return dd, nd
			}
			_, isHAMT := func() (*DynamicDirectory, bool) {
				d, _ := build("a", "b", long)
				_, h := d.Directory.(*HAMTDirectory)
				return d, h
			}()
			if !isHAMT {
				t.Fatalf("mode %v: expected a HAMT with three entries", mode)
			}
			var final []string
			var edited *DynamicDirectory
			if maxLinks == 0 {
				// over the threshold by the long entry, back under it by removing the shorter "a"
				edited, _ = build("a", "b", long)
				final = []string{"b", long}
			} else {
				// over MaxLinks by the third entry; then a long entry replaces... is added and a short one
				// removed twice, so the count fits again while the net size change is positive
				edited, _ = build("a", "b", "c")
				if err := edited.AddChild(ctx, long, child); err != nil {
					t.Fatal(err)
				}
				if err := edited.RemoveChild(ctx, "a"); err != nil {
					t.Fatal(err)
				}
				final = []string{long, "c"}
				if err := edited.RemoveChild(ctx, "b"); err != nil {
					t.Fatal(err)
				}
			}
			if maxLinks == 0 {
				if err := edited.RemoveChild(ctx, "a"); err != nil {
					t.Fatal(err)
				}
			}
			got, err := edited.GetNode()
			if err != nil {
				t.Fatal(err)
			}
			fresh, want := build(final...)
			if !got.Cid().Equals(want.Cid()) {
				fmt.Printf("VERIF-FAIL C16 [mode %v maxLinks %d]: after the edits the directory is a %T with root %s; a fresh build of the same entries %v is a %T with root %s\n",
					mode, maxLinks, edited.Directory, got.Cid(), final, fresh.Directory, want.Cid())
				t.Fail()
			}
		}
	}
}
