package namesys

// Replay for obligations (*namesys).Publish#site:cache_fill_key / #site:cache_invalidate_key
// (property C29): "immediately after a successful publish, resolving the name
// through the same name system returns the published value, with or without
// the resolver cache". Publish fills the cache under the bare name while
// resolution looks up "/ipns/<name>", so a cached earlier value survives.

import (
	"context"
	"testing"

	"github.com/ipfs/boxo/ipns"
	"github.com/ipfs/boxo/path"
	offroute "github.com/ipfs/boxo/routing/offline"
	ds "github.com/ipfs/go-datastore"
	dssync "github.com/ipfs/go-datastore/sync"
	record "github.com/libp2p/go-libp2p-record"
	ci "github.com/libp2p/go-libp2p/core/crypto"
	"github.com/libp2p/go-libp2p/core/peer"
)

func TestVerifReplayC29CacheKey(t *testing.T) {
	ctx := context.Background()
	dst := dssync.MutexWrap(ds.NewMapDatastore())
	priv, _, err := ci.GenerateKeyPair(ci.Ed25519, 0)
	if err != nil {
		t.Fatal(err)
	}
	pid, _ := peer.IDFromPrivateKey(priv)
	routing := offroute.NewOfflineRouter(dst, record.NamespacedValidator{
		"ipns": ipns.Validator{},
		"pk":   record.PublicKeyValidator{},
	})
	nsys, err := NewNameSystem(routing, WithDatastore(dst), WithCache(128))
	if err != nil {
		t.Fatal(err)
	}
	a, _ := path.NewPath("/ipfs/QmUNLLsPACCz1vLxQVkXqqLX5R1X345qqfHbsf67hvA3Nn")
	b, _ := path.NewPath("/ipfs/bafkreifjjcie6lypi6ny7amxnfftagclbuxndqonfipmb64f2km2devei4")
	name := ipns.NameFromPeer(pid).AsPath()
	if err := nsys.Publish(ctx, priv, a); err != nil {
		t.Fatal(err)
	}
	r1, err := nsys.Resolve(ctx, name)
	if err != nil || r1.Path.String() != a.String() {
		t.Fatalf("first resolve: %v %v", r1.Path, err)
	}
	if err := nsys.Publish(ctx, priv, b); err != nil {
		t.Fatal(err)
	}
	r2, err := nsys.Resolve(ctx, name)
	if err != nil {
		t.Fatal(err)
	}
	if r2.Path.String() != b.String() {
		t.Fatalf("VERIF-FAIL C29: resolve right after publishing %s returned the stale cached value %s", b, r2.Path)
	}
}
