package namesys

// Replay for obligations (*IPNSPublisher).updateRecord#site:never_decreases and
// #site:increases_on_change (property C29): with the current sequence at
// 2^64-1 (reachable through the public PublishWithSequence option) a publish of
// a different value must not produce a record with a smaller sequence number.

import (
	"context"
	"crypto/rand"
	"math"
	"testing"

	"github.com/ipfs/boxo/ipns"
	"github.com/ipfs/boxo/path"
	mockrouting "github.com/ipfs/boxo/routing/mock"
	ds "github.com/ipfs/go-datastore"
	dssync "github.com/ipfs/go-datastore/sync"
	testutil "github.com/libp2p/go-libp2p-testing/net"
	ci "github.com/libp2p/go-libp2p/core/crypto"
	"github.com/libp2p/go-libp2p/core/peer"
)

func TestVerifReplayC29SequenceOverflow(t *testing.T) {
	ctx := context.Background()
	privKey, pubKey, err := ci.GenerateKeyPairWithReader(ci.Ed25519, 2048, rand.Reader)
	if err != nil {
		t.Fatal(err)
	}
	pid, _ := peer.IDFromPublicKey(pubKey)
	dstore := dssync.MutexWrap(ds.NewMapDatastore())
	serv := mockrouting.NewServer()
	r := serv.ClientWithDatastore(ctx, testutil.NewIdentity(pid, testutil.ZeroLocalTCPAddress, privKey, pubKey), dstore)
	publisher := NewIPNSPublisher(r, dstore)
	v1, _ := path.NewPath("/ipfs/bafkreifjjcie6lypi6ny7amxnfftagclbuxndqonfipmb64f2km2devei4")
	v2, _ := path.NewPath("/ipfs/bafkreihzrqy23ynilblgil62wy7gv22o4gklv2frcsgbwntnhptmzcq5tq")
	if err := publisher.Publish(ctx, privKey, v1, PublishWithSequence(math.MaxUint64)); err != nil {
		t.Fatalf("publish with explicit sequence 2^64-1: %v", err)
	}
	err = publisher.Publish(ctx, privKey, v2)
	if err != nil {
		return // refusing to publish is acceptable: the sequence did not decrease
	}
	rec, err := publisher.GetPublished(ctx, ipns.NameFromPeer(pid), true)
	if err != nil || rec == nil {
		t.Fatalf("no published record: %v", err)
	}
	seq, _ := rec.Sequence()
	if seq < math.MaxUint64 {
		t.Fatalf("VERIF-FAIL C29: publishing a new value after sequence 2^64-1 produced sequence %d (sequence number decreased)", seq)
	}
}
