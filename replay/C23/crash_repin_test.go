package dspinner

// Replay for obligation (*pinner).doPinRecursive#site:new_pin_before_old_removed
// (property C23): the process stops at every point between two datastore writes
// of a re-pin (Pin of an already recursively pinned root with a new name); after
// restart the root must still be pinned, because the operation does not remove it.

import (
	"context"
	"errors"
	"sync/atomic"
	"testing"

	bs "github.com/ipfs/boxo/blockservice"
	blockstore "github.com/ipfs/boxo/blockstore"
	offline "github.com/ipfs/boxo/exchange/offline"
	mdag "github.com/ipfs/boxo/ipld/merkledag"
	ds "github.com/ipfs/go-datastore"
	dssync "github.com/ipfs/go-datastore/sync"
)

var errVerifCrashed = errors.New("process stopped")

// verifCrashDS applies the first `budget` mutations and drops all later ones
// (the process is gone); reads keep working for the post-crash inspection.
type verifCrashDS struct {
	ds.Datastore
	budget  int64
	applied atomic.Int64
}

func (d *verifCrashDS) allow() bool { return d.applied.Add(1) <= d.budget }

func (d *verifCrashDS) Put(ctx context.Context, k ds.Key, v []byte) error {
	if !d.allow() {
		return errVerifCrashed
	}
	return d.Datastore.Put(ctx, k, v)
}

func (d *verifCrashDS) Delete(ctx context.Context, k ds.Key) error {
	if !d.allow() {
		return errVerifCrashed
	}
	return d.Datastore.Delete(ctx, k)
}

func TestVerifReplayC23CrashDuringRepin(t *testing.T)       { verifCrashRepin(t, true) }
func TestVerifReplayC23CrashDuringDirectRepin(t *testing.T) { verifCrashRepin(t, false) }

func verifCrashRepin(t *testing.T, recursive bool) {
	ctx := context.Background()
	for budget := int64(0); budget < 40; budget++ {
		pinStore := dssync.MutexWrap(ds.NewMapDatastore())
		blockDS := dssync.MutexWrap(ds.NewMapDatastore())
		bstore := blockstore.NewBlockstore(blockDS)
		dserv := mdag.NewDAGService(bs.New(bstore, offline.Exchange(bstore)))
		p, err := New(ctx, pinStore, dserv)
		if err != nil {
			t.Fatal(err)
		}
		root, _ := randNode()
		if err := dserv.Add(ctx, root); err != nil {
			t.Fatal(err)
		}
		if err := p.Pin(ctx, root, recursive, "first"); err != nil {
			t.Fatal(err)
		}
		if err := p.Flush(ctx); err != nil {
			t.Fatal(err)
		}
		// second incarnation: re-pin with a crash after `budget` writes
		crash := &verifCrashDS{Datastore: pinStore, budget: budget}
		p2, err := New(ctx, crash, dserv)
		if err != nil {
			t.Fatal(err)
		}
		perr := p2.Pin(ctx, root, recursive, "second")
		crashed := crash.applied.Load() > budget
		// restart on what reached the datastore
		p3, err := New(ctx, pinStore, dserv)
		if err != nil {
			t.Fatal(err)
		}
		_, pinned, err := p3.IsPinned(ctx, root.Cid())
		if err != nil {
			t.Fatal(err)
		}
		if !pinned {
			t.Fatalf("VERIF-FAIL C23: process stopped after %d writes of a re-pin (Pin returned %v): after restart the root is not pinned any more", budget, perr)
		}
		if !crashed {
			return // the whole operation fits in the budget: all crash points covered
		}
	}
	t.Fatal("re-pin needs more than 40 writes?")
}
