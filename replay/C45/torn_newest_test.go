package autoconf

// Replay for obligation (*Client).getCachedConfig#ensures:fails_only_if_none_intact
// (property C45): the newest cache file is a truncated write (process stopped in
// the middle of os.WriteFile) while an older complete version exists; GetCached
// must return the older cached version, not the built-in fallback. Every
// truncation point of the newest file is tried.

import (
	"encoding/json"
	"os"
	"path/filepath"
	"testing"
)

func TestVerifReplayC45TornNewest(t *testing.T) {
	dir := t.TempDir()
	fallback := &Config{AutoConfVersion: 1}
	c, err := NewClient(
		WithCacheDir(dir),
		WithURL("http://127.0.0.1:1/autoconf.json"),
		WithFallback(func() *Config { return fallback }),
	)
	if err != nil {
		t.Fatal(err)
	}
	cacheDir, err := c.getCacheDir()
	if err != nil {
		t.Fatal(err)
	}
	if err := os.MkdirAll(cacheDir, 0o755); err != nil {
		t.Fatal(err)
	}
	older := &Config{AutoConfVersion: 2025010101, AutoConfSchema: 1}
	newer := &Config{AutoConfVersion: 2025020202, AutoConfSchema: 1}
	ob, _ := json.Marshal(older)
	nb, _ := json.Marshal(newer)
	if err := os.WriteFile(filepath.Join(cacheDir, "autoconf-1000.json"), ob, 0o600); err != nil {
		t.Fatal(err)
	}
	for cut := 0; cut < len(nb); cut++ {
		if err := os.WriteFile(filepath.Join(cacheDir, "autoconf-2000.json"), nb[:cut], 0o600); err != nil {
			t.Fatal(err)
		}
		got := c.GetCached()
		if got == nil || got.AutoConfVersion != older.AutoConfVersion {
			v := int64(-1)
			if got != nil {
				v = got.AutoConfVersion
			}
			t.Fatalf("VERIF-FAIL C45: newest cache file truncated after %d of %d bytes: GetCached returned version %d (fallback is %d) although the intact older version %d is cached", cut, len(nb), v, fallback.AutoConfVersion, older.AutoConfVersion)
		}
	}
}
