package importer

// Replay for obligation balanced.Layout#pre:SetFileAttributes:node_can_carry_attributes
// (property C07): a file that fits in one raw leaf must still carry the requested mode and
// modification time.

import (
	"bytes"
	"context"
	"testing"
	"time"

	chunker "github.com/ipfs/boxo/chunker"
	mdtest "github.com/ipfs/boxo/ipld/merkledag/test"
	"github.com/ipfs/boxo/ipld/unixfs/importer/balanced"
	h "github.com/ipfs/boxo/ipld/unixfs/importer/helpers"
	uio "github.com/ipfs/boxo/ipld/unixfs/io"
)

func TestVerifReplayC07RawLeafAttributes(t *testing.T) {
	ds := mdtest.Mock()
	mtime := time.Unix(1700000000, 0)
	dbp := h.DagBuilderParams{Dagserv: ds, Maxlinks: 174, RawLeaves: true, FileMode: 0o640, FileModTime: mtime}
	db, err := dbp.New(chunker.NewSizeSplitter(bytes.NewReader([]byte("one small chunk")), 1024))
	if err != nil {
		t.Fatal(err)
	}
	nd, err := balanced.Layout(db)
	if err != nil {
		t.Fatal(err)
	}
	rd, err := uio.NewDagReader(context.Background(), nd, ds)
	if err != nil {
		t.Fatal(err)
	}
	if rd.Mode() != 0o640 || !rd.ModTime().Equal(mtime) {
		t.Fatalf("VERIF-FAIL C07: balanced import with raw leaves of a single-chunk file requested mode 0640 / mtime %d, the file reports mode %o / mtime %d", mtime.Unix(), rd.Mode(), rd.ModTime().Unix())
	}
}
