package decision

// Replay for property C36 (overflow eviction order): when a peer's want-list is full of wants
// whose blocks are all present, a newcomer with a higher priority must take the place of the
// lowest-priority existing want, and a newcomer is admitted whenever some existing want has a
// lower priority.

import (
	"context"
	"fmt"
	"testing"

	"github.com/ipfs/boxo/bitswap/message"
	pb "github.com/ipfs/boxo/bitswap/message/pb"
	blockstore "github.com/ipfs/boxo/blockstore"
	blocks "github.com/ipfs/go-block-format"
	cid "github.com/ipfs/go-cid"
	ds "github.com/ipfs/go-datastore"
	dssync "github.com/ipfs/go-datastore/sync"
	peer "github.com/libp2p/go-libp2p/core/peer"
)

func TestVerifReplayC36EvictionOrder(t *testing.T) {
	ctx := context.Background()
	bs := blockstore.NewBlockstore(dssync.MutexWrap(ds.NewMapDatastore()))
	mk := func(i int) cid.Cid {
		b := blocks.NewBlock(fmt.Append(nil, "evict", i))
		if err := bs.Put(ctx, b); err != nil {
			t.Fatal(err)
		}
		return b.Cid()
	}
	for _, newPrio := range []int32{7, 10} {
		e := newEngineForTesting(bs, &fakePeerTagger{}, "localhost", 0, WithScoreLedger(NewTestScoreLedger(shortTerm, nil)), WithBlockstoreWorkerCount(4), WithMaxQueuedWantlistEntriesPerPeer(3))
		p := peer.ID("remote")
		a, b, c, d := mk(1), mk(2), mk(3), mk(4)
		m := message.New(false)
		m.AddEntry(a, 1, pb.Message_Wantlist_Block, true)
		m.AddEntry(b, 5, pb.Message_Wantlist_Block, true)
		m.AddEntry(c, 9, pb.Message_Wantlist_Block, true)
		e.MessageReceived(ctx, p, m)
		m = message.New(false)
		m.AddEntry(d, newPrio, pb.Message_Wantlist_Block, true)
		e.MessageReceived(ctx, p, m)
		got := map[cid.Cid]int32{}
		for _, w := range e.WantlistForPeer(p) {
			got[w.Cid] = w.Priority
		}
		e.Close()
		_, hasA := got[a]
		_, hasD := got[d]
		if len(got) != 3 || hasA || !hasD {
			t.Fatalf("VERIF-FAIL C36: want-list limit 3 holding priorities 1,5,9 (all blocks present) received a want of priority %d: the list now holds priorities %v; the newcomer should have replaced the priority-1 want", newPrio, got)
		}
	}
}
