package mod

// Replay for obligations (*DagModifier).Read#ensures:write_follows_read and
// (*DagModifier).CtxReadFull#ensures:write_follows_read (property C10): in a
// byte-array file model a Write continues where the preceding Read stopped.

import (
	"bytes"
	"context"
	"io"
	"testing"

	uio "github.com/ipfs/boxo/ipld/unixfs/io"
	testu "github.com/ipfs/boxo/ipld/unixfs/test"
)

func TestVerifReplayC10ReadThenWrite(t *testing.T) {
	ctx, cancel := context.WithCancel(context.Background())
	defer cancel()
	dserv := testu.GetDAGServ()
	nd := testu.GetNode(t, dserv, []byte("abcdefg"), testu.UseProtoBufLeaves)
	dm, err := NewDagModifier(ctx, nd, dserv, testu.SizeSplitterGen(4))
	if err != nil {
		t.Fatal(err)
	}
	if _, err := dm.Seek(0, io.SeekStart); err != nil {
		t.Fatal(err)
	}
	buf := make([]byte, 2)
	if n, err := dm.CtxReadFull(ctx, buf); err != nil || n != 2 {
		t.Fatalf("read: %d %v", n, err)
	}
	if _, err := dm.Write([]byte("X")); err != nil {
		t.Fatal(err)
	}
	out, err := dm.GetNode()
	if err != nil {
		t.Fatal(err)
	}
	rd, err := uio.NewDagReader(ctx, out, dserv)
	if err != nil {
		t.Fatal(err)
	}
	got, _ := io.ReadAll(rd)
	if !bytes.Equal(got, []byte("abXdefg")) {
		t.Fatalf("VERIF-FAIL C10 [read-then-write]: Seek(0); Read(2); Write(\"X\") on \"abcdefg\" gives %q, a file model gives \"abXdefg\"", got)
	}
}
