package peering

// Replay for obligation (*peerHandler).startIfDisconnected#ensures:stopped_inv
// (property C46): the sequential schedule stop(); startIfDisconnected() — which is
// what a late Disconnected notification goroutine produces — must not arm a
// reconnect timer on a stopped handler.

import (
	"context"
	"testing"
)

func TestVerifReplayC46StoppedInv(t *testing.T) {
	h1 := newNode(t)
	h2 := newNode(t)
	defer h1.Close()
	defer h2.Close()
	ph := &peerHandler{host: h1, peer: h2.ID(), addrs: h2.Addrs(), nextDelay: initialDelay}
	ph.ctx, ph.cancel = context.WithCancel(context.Background())
	ph.stop()
	ph.startIfDisconnected()
	ph.mu.Lock()
	armed := ph.reconnectTimer != nil
	if armed {
		ph.reconnectTimer.Stop()
	}
	ph.mu.Unlock()
	if armed {
		t.Fatalf("VERIF-FAIL C46: reconnect timer armed on a stopped peer handler (stop(); startIfDisconnected())")
	}
}
