package provider

// Replay for obligation (*reprovider).Reprovide#loop0:inv-entry:each_round_reads_keys
// (property C44, "reproviding ... terminates"): with MaxBatchSize(0) (or
// ThroughputReport(_, 0)) each round of Reprovide reads no key, never sees the
// end of the key stream and never returns.

import (
	"context"
	"testing"
	"time"

	"github.com/ipfs/go-cid"
	"github.com/ipfs/go-datastore"
	dssync "github.com/ipfs/go-datastore/sync"
	"github.com/ipfs/go-test/random"
)

func TestVerifReplayC44BatchSizeZero(t *testing.T) {
	ds := dssync.MutexWrap(datastore.NewMapDatastore())
	prov := &mockProvideMany{}
	cids := random.Cids(3)
	sys, err := New(ds, Online(prov), MaxBatchSize(0), initialReprovideDelay(time.Hour), KeyProvider(func(ctx context.Context) (<-chan cid.Cid, error) {
		ch := make(chan cid.Cid)
		go func() {
			defer close(ch)
			for _, c := range cids {
				select {
				case ch <- c:
				case <-ctx.Done():
					return
				}
			}
		}()
		return ch, nil
	}))
	if err != nil {
		return // rejecting the option is fine
	}
	defer sys.Close()
	ctx, cancel := context.WithCancel(context.Background())
	defer cancel()
	done := make(chan error, 1)
	go func() { done <- sys.Reprovide(ctx) }()
	select {
	case <-done:
		keys, _ := prov.keys, 0
		_ = keys
	case <-time.After(3 * time.Second):
		cancel()
		t.Fatalf("VERIF-FAIL C44: Reprovide with MaxBatchSize(0) did not return within 3s (3 keys to announce)")
	}
}
