package filestore

// Replay for obligation (*FileManager).putTo#ensures:inside_root (property C41):
// a file in a sibling directory whose name merely starts with the root's name
// (/base/root-evil vs /base/root) must be rejected.

import (
	"context"
	"os"
	"path/filepath"
	"testing"

	posinfo "github.com/ipfs/boxo/filestore/posinfo"
	dag "github.com/ipfs/boxo/ipld/merkledag"
	ds "github.com/ipfs/go-datastore"
)

func TestVerifReplayC41SiblingPrefix(t *testing.T) {
	base := t.TempDir()
	root := filepath.Join(base, "root")
	evil := filepath.Join(base, "root-evil")
	for _, d := range []string{root, evil} {
		if err := os.MkdirAll(d, 0o755); err != nil {
			t.Fatal(err)
		}
	}
	outside := filepath.Join(evil, "f")
	data := []byte("outside the filestore root")
	if err := os.WriteFile(outside, data, 0o644); err != nil {
		t.Fatal(err)
	}
	fm := NewFileManager(ds.NewMapDatastore(), root)
	fm.AllowFiles = true
	nd := dag.NewRawNode(data)
	err := fm.Put(context.Background(), &posinfo.FilestoreNode{
		Node:    nd,
		PosInfo: &posinfo.PosInfo{FullPath: outside, Offset: 0},
	})
	if err == nil {
		t.Fatalf("VERIF-FAIL C41: reference to %s accepted by a filestore rooted at %s", outside, root)
	}
}
