package merkledag

// Replay for obligation (*ProtoNode).SetCidBuilder#ensures:cid_cache_dropped (property C11):
// after any change of the CID builder the node's CID must be the hash of its current
// encoding under the current builder, never a CID cached under the previous builder.

import (
	"testing"

	cid "github.com/ipfs/go-cid"
	mh "github.com/multiformats/go-multihash"
)

func TestVerifReplayC11StaleCidAfterBuilderReset(t *testing.T) {
	n := NodeWithData([]byte("some data"))
	if err := n.SetCidBuilder(cid.V1Builder{Codec: cid.DagProtobuf, MhType: mh.SHA2_256}); err != nil {
		t.Fatal(err)
	}
	v1 := n.Cid() // caches the CIDv1
	if v1.Version() != 1 {
		t.Fatalf("expected a CIDv1, got %s", v1)
	}
	if err := n.SetCidBuilder(nil); err != nil { // back to the default (CIDv0) builder
		t.Fatal(err)
	}
	got := n.Cid()
	fresh := NodeWithData([]byte("some data"))
	want := fresh.Cid()
	if !got.Equals(want) {
		t.Fatalf("VERIF-FAIL C11: after SetCidBuilder(nil) the node reports %s (cached under the previous builder); its encoding under the current default builder hashes to %s", got, want)
	}
}
