package merkledag

// Replay for obligation (*ProtoNode).UnmarshalJSON#ensures:encoding_dropped (property C11):
// whenever data or links change, the cached encoding is dropped - also when the call fails.

import (
	"bytes"
	"testing"
)

func TestVerifReplayC11FailedUnmarshalJSON(t *testing.T) {
	n := NodeWithData([]byte("x"))
	before := n.RawData() // caches the encoding of data "x"
	// a link without a CID makes UnmarshalJSON fail after it has replaced data and links
	err := n.UnmarshalJSON([]byte(`{"data":"eQ==","links":[{"Name":"w","Size":1}]}`))
	if err == nil {
		t.Fatal("expected an error for a link without CID")
	}
	if bytes.Equal(n.Data(), []byte("x")) && len(n.links) == 0 {
		return // the failed call changed nothing: fine
	}
	dec, derr := DecodeProtobuf(n.RawData())
	if derr != nil || !bytes.Equal(dec.Data(), n.Data()) {
		t.Fatalf("VERIF-FAIL C11: after a failed UnmarshalJSON the node shows data %q but its cached encoding still decodes to %q (unchanged: %v)",
			n.Data(), dec.Data(), bytes.Equal(before, n.RawData()))
	}
}
