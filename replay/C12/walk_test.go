package merkledag

// Replays for property C12.
//  - parallelWalkDepth$1#site:handler_gets_failing_cid / #site:provide_this_node:
//    with a concurrent walk the error handler (and the provider) must receive the
//    CID of the node whose fetch failed (succeeded), not the walk's root.
//  - (*walkOptions).addHandler$1#site:never_rereads_the_field: two handler options
//    compose into a handler that calls the previous one (not itself).

import (
	"context"
	"testing"

	cid "github.com/ipfs/go-cid"
	format "github.com/ipfs/go-ipld-format"
	mh "github.com/multiformats/go-multihash"
)

type verifProv struct{ got []mh.Multihash }

func (p *verifProv) StartProviding(force bool, hs ...mh.Multihash) error {
	p.got = append(p.got, hs...)
	return nil
}

func verifTwoNodeDag() (root, child *ProtoNode, getLinks GetLinks) {
	child = NodeWithData([]byte("child"))
	root = NodeWithData([]byte("root"))
	root.AddNodeLink("c", child)
	getLinks = func(ctx context.Context, c cid.Cid) ([]*format.Link, error) {
		if c.Equals(root.Cid()) {
			return root.Links(), nil
		}
		return nil, format.ErrNotFound{Cid: c}
	}
	return
}

func TestVerifReplayC12ParallelHandlerCid(t *testing.T) {
	root, child, getLinks := verifTwoNodeDag()
	var missing []cid.Cid
	prov := &verifProv{}
	err := Walk(context.Background(), getLinks, root.Cid(), func(cid.Cid) bool { return true },
		Concurrency(2), OnMissing(func(c cid.Cid) { missing = append(missing, c) }), IgnoreMissing(), WithProvider(prov))
	if err != nil {
		t.Fatalf("walk: %v", err)
	}
	if len(missing) != 1 || !missing[0].Equals(child.Cid()) {
		t.Fatalf("VERIF-FAIL C12: concurrent walk reported missing %v, the missing node is %s (root is %s)", missing, child.Cid(), root.Cid())
	}
	// the provider is asked to announce exactly the visited nodes: root and child
	want := map[string]bool{string(root.Cid().Hash()): true, string(child.Cid().Hash()): true}
	got := map[string]bool{}
	for _, h := range prov.got {
		got[string(h)] = true
	}
	if len(got) != len(want) || !got[string(child.Cid().Hash())] || !got[string(root.Cid().Hash())] {
		t.Fatalf("VERIF-FAIL C12: concurrent walk asked the provider to announce %x, the visited nodes are root %x and child %x", prov.got, root.Cid().Hash(), child.Cid().Hash())
	}
}

func TestVerifReplayC12ComposedHandlers(t *testing.T) {
	root, _, getLinks := verifTwoNodeDag()
	done := make(chan error, 1)
	go func() {
		done <- Walk(context.Background(), getLinks, root.Cid(), func(cid.Cid) bool { return true }, IgnoreMissing(), IgnoreErrors())
	}()
	if err := <-done; err != nil {
		t.Fatalf("VERIF-FAIL C12: walk with IgnoreMissing+IgnoreErrors failed: %v", err)
	}
}
