package trickle

// Replay for the C08 obligations on Append / appendFillLastChild / appendRec
// (site:new_subtree_depth, site:last_child_depth, site:refill_position,
// pre:appendFillLastChild:position, pre:appendRec:real_depth): a sub-tree that
// Append creates at child index ml+k must have depth k/depthRepeat+1. The
// verifier's counterexample is a (width, number of children) pair; the replay
// builds real files of that shape with Layout, appends to them and asks the
// package's own structure checker and a DagReader.

import (
	"bytes"
	"context"
	"fmt"
	"io"
	"testing"

	chunker "github.com/ipfs/boxo/chunker"
	mdtest "github.com/ipfs/boxo/ipld/merkledag/test"
	h "github.com/ipfs/boxo/ipld/unixfs/importer/helpers"
	uio "github.com/ipfs/boxo/ipld/unixfs/io"
)

func TestVerifReplayC08AppendDepth(t *testing.T) {
	ctx := context.Background()
	const chunk = 4
	data := make([]byte, 64*chunk)
	for i := range data {
		data[i] = byte(i * 13)
	}
	for w := 2; w <= 3; w++ {
		for bl := 0; bl <= 24; bl++ {
			for el := 1; el <= 24; el++ {
				dserv := mdtest.Mock()
				dbp := h.DagBuilderParams{Dagserv: dserv, Maxlinks: w}
				db, err := dbp.New(chunker.NewSizeSplitter(bytes.NewReader(data[:bl*chunk]), chunk))
				if err != nil {
					t.Fatal(err)
				}
				base, err := Layout(db)
				if err != nil {
					t.Fatal(err)
				}
				db2, _ := dbp.New(chunker.NewSizeSplitter(bytes.NewReader(data[bl*chunk:(bl+el)*chunk]), chunk))
				out, err := Append(ctx, base, db2)
				if err != nil {
					t.Fatalf("VERIF-FAIL C08: Append(width=%d, base=%d chunks, extra=%d chunks): %v", w, bl, el, err)
				}
				if err := VerifyTrickleDagStructure(out, VerifyParams{Getter: dserv, Direct: w, LayerRepeat: depthRepeat}); err != nil {
					t.Fatalf("VERIF-FAIL C08: width=%d: appending %d chunks to a trickle file of %d chunks (root has %d children) breaks the layout: %v",
						w, el, bl, len(base.Links()), err)
				}
				rd, err := uio.NewDagReader(ctx, out, dserv)
				if err != nil {
					t.Fatal(err)
				}
				got, err := io.ReadAll(rd)
				if err != nil || !bytes.Equal(got, data[:(bl+el)*chunk]) {
					t.Fatalf("VERIF-FAIL C08: width=%d base=%d extra=%d chunks: content differs (err=%v)", w, bl, el, err)
				}
			}
		}
	}
	fmt.Println("replay: no layout violation for widths 2..3, base 0..24 chunks, extra 1..24 chunks")
}
