package ipns

// Replay for obligation Validate#ensures:legacy_always_checked (property C25):
// "any change to the legacy fields so that they disagree with the signed data
// makes validation fail". A V2-only record (no SignatureV1, no legacy Value)
// whose legacy Sequence / Validity / Ttl field is forged still validates,
// because the legacy fields are compared only when SignatureV1 or Value is set.

import (
	"crypto/rand"
	"testing"
	"time"

	ic "github.com/libp2p/go-libp2p/core/crypto"
)

func TestVerifReplayC25LegacyField(t *testing.T) {
	sk, pk, err := ic.GenerateEd25519Key(rand.Reader)
	if err != nil {
		t.Fatal(err)
	}
	rec, err := NewRecord(sk, testPath, 7, time.Now().Add(time.Hour), time.Minute, WithV1Compatibility(false))
	if err != nil {
		t.Fatal(err)
	}
	if err := Validate(rec, pk); err != nil {
		t.Fatalf("untampered record must validate: %v", err)
	}
	forged := uint64(99)
	rec.pb.Sequence = &forged // disagrees with the signed sequence 7
	raw, err := MarshalRecord(rec)
	if err != nil {
		t.Fatal(err)
	}
	rec2, err := UnmarshalRecord(raw)
	if err != nil {
		return // rejected at decode time: fine
	}
	if err := Validate(rec2, pk); err == nil {
		t.Fatalf("VERIF-FAIL C25: record with forged legacy Sequence=99 (signed sequence 7) passes validation")
	}
}
