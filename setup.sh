#!/bin/sh
# Build the verifier offline from files on disk only.
set -e
cd "$(dirname "$0")"
export GOFLAGS=-mod=mod GOPROXY=off
mkdir -p bin evidence
(cd govc && go build -o ../bin/govc .)
