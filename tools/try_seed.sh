#!/bin/bash
# usage: try_seed.sh <patch.diff> <id> [more ids]  -- apply to /repo, run checks, revert
p=$1; shift
cd /repo && git apply "$p" || { echo "cannot apply $p"; exit 2; }
for id in "$@"; do
  out=$(cd /verif && GOVC_EVIDENCE_DIR=/verif/work/seed-evidence ./check $id 2>&1 | grep -E "VIOLATION|BROKEN|^property=" | cut -c1-260)
  echo "--- $p on $id"; echo "$out"
done
cd /repo && git checkout -q -- . && git status --short | grep -v "^??" | head
