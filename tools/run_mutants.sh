#!/bin/bash
# Must-fail corpus: every patch under /verif/mutants (reverse of each fix: commit, hand-made
# mutants) and every /verif/seeded/<id>/<n>/patch.diff must make the owning property's check
# report a VIOLATION. Patches are applied to /repo and reverted immediately; evidence of these
# runs goes to /verif/work/seed-evidence.
cd /verif
fail=0
run() { # patch id
  out=$(tools/try_seed.sh "$1" "$2" 2>&1)
  if echo "$out" | grep -q "^VIOLATION property=$2"; then echo "caught   $2 $1"; else echo "MISSED   $2 $1"; echo "$out" | tail -3; fail=1; fi
}
for p in mutants/*.patch; do id=$(basename $p | cut -d_ -f1); [ -n "${ONLY:-}" ] && [ "$id" != "$ONLY" ] && continue; run /verif/$p $id; done
for p in seeded/*/*/patch.diff; do id=$(echo $p | cut -d/ -f2); [ -n "${ONLY:-}" ] && [ "$id" != "$ONLY" ] && continue; run /verif/$p $id; done
exit $fail
