#!/bin/bash
# usage: mkwt.sh <id>...  -- scratch worktrees + property text for seeding agents
for id in "$@"; do
  git -C /repo worktree add -q /tmp/wt-$id HEAD
  find /tmp/wt-$id -name 'zz_verif_contracts*.go' -delete
  git -C /tmp/wt-$id update-index --assume-unchanged $(git -C /tmp/wt-$id ls-files -d) 2>/dev/null
  python3 - "$id" <<'PY'
import json,sys
pid=sys.argv[1]
for l in open('/verif/properties.jsonl'):
    p=json.loads(l)
    if p['id']==pid:
        open('/tmp/prop-%s.txt'%pid,'w').write(json.dumps({k:p[k] for k in ('id','title','statement','quantifier','why_tests_cant','anchors')},indent=1))
PY
done
