#!/usr/bin/env python3
# Regenerates /verif/MANIFEST.json from props/*.json and tools/na.json.
import json, glob, os, subprocess
root = os.path.dirname(os.path.dirname(os.path.abspath(__file__)))
props = [json.loads(l) for l in open(os.path.join(root, 'properties.jsonl'))]
ids = [p['id'] for p in props]
na = json.load(open(os.path.join(root, 'tools', 'na.json')))
checks = []
claimed = []
for pid in ids:
    f = os.path.join(root, 'props', pid + '.json')
    if not os.path.exists(f):
        continue
    c = json.load(open(f))
    if not c.get('claimed', True):
        continue
    claimed.append(pid)
    checks.append({
        "property_id": pid,
        "quick_cmd": f"./check {pid} --tier quick",
        "thorough_cmd": f"./check {pid} --tier thorough",
        "evidence_file": f"/verif/evidence/{pid}.json",
        "replay_cmd_template": f"./check {pid} --replay {{path}}",
        "engine": "govc",
        "level_claimed": {"category": "proof", "text": c["level_text"], "design_ref": c.get("design_ref", f"DESIGN.md §4 {pid}")},
        "level_note": c["level_note"],
        "technique": c.get("technique", "contract-based deductive verification: weakest-precondition style VCs over go/ssa of the real code, discharged by z3/cvc5"),
    })
try:
    hooks = subprocess.check_output(['git', '-C', '/repo', 'log', '--format=%H %s'], text=True).splitlines()
    src = [l.split()[0] for l in hooks if 'verif hooks' in l]
except Exception:
    src = []
m = {
    "version": 1,
    "setup_cmd": "./setup.sh",
    "hooks": {
        "guard": "verif",
        "enable": "contract files zz_verif_contracts.go (comment-only, //go:build verif) are read by govc, which loads /repo with -tags verif; no executable hook code exists",
        "baseline_off_cmd": "cd /repo && go test -vet=off -count=1 -timeout 25m ./...",
        "source_commits": src,
        "add_only": True,
    },
    "engines": [{"name": "govc", "path": "/verif/govc", "serves_properties": claimed,
                 "kind_free_text": "contract-based deductive verifier for Go written for this task: contracts as //@ comments in /repo (build tag verif), VC generation over go/ssa of the working tree, one SMT query per obligation raced on z3 4.8.12, z3 5.1.0 and cvc5 1.0; bounded stand-ins (labelled) run as overlay-injected in-package tests"}],
    "checks": checks,
    "not_applicable": [{"property_id": pid, "reason": na.get(pid, "check not built yet in this commit (see DESIGN.md for the plan)")} for pid in ids if pid not in claimed],
    "notes": "see DESIGN.md; known findings in known_findings.txt; seeded must-fail corpus under seeded/",
}
json.dump(m, open(os.path.join(root, 'MANIFEST.json'), 'w'), indent=1)
print("claimed", len(claimed), "n/a", len(ids) - len(claimed))
