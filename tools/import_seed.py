#!/usr/bin/env python3
# usage: import_seed.py <id> <n> "<caught_by>" "<confirm line>"
import sys, json, os, shutil
pid, n, caught, confirm = sys.argv[1:5]
src = f"/tmp/seed-{pid}/{n}"
dst = f"/verif/seeded/{pid}/{n}"
if os.path.exists(dst):
    # never overwrite an earlier seed: take the next free number
    k = 1
    while os.path.exists(f"/verif/seeded/{pid}/{k}"):
        k += 1
    dst = f"/verif/seeded/{pid}/{k}"
os.makedirs(dst, exist_ok=True)
for f in ("patch.diff", "demo_test.go"):
    shutil.copy(os.path.join(src, f), os.path.join(dst, f))
meta = json.load(open(os.path.join(src, "meta.json")))
meta["confirmed_by_framework_author"] = confirm
meta["caught_by"] = caught
json.dump(meta, open(os.path.join(dst, "meta.json"), "w"), indent=1)
print("imported", dst)
