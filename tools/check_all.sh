#!/bin/bash
# Run the quick (or $1=thorough) check of every claimed property on the current tree, 4 at a time.
tier=${1:-quick}
cd /verif
ids=$(python3 -c "import json;print(' '.join(p['property_id'] for p in json.load(open('MANIFEST.json'))['checks']))")
mkdir -p work/all
echo $ids | tr ' ' '\n' | xargs -P 4 -I{} sh -c "./check {} --tier $tier > work/all/{}.log 2>&1; echo \"{} rc=\$? \$(tail -1 work/all/{}.log | cut -c1-160)\""
