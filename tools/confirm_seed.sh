#!/bin/bash
# usage: confirm_seed.sh <id> <n> <pkgdir-for-demo> <test pkgs...>
# Confirms in the scratch worktree /tmp/wt-<id>: demo passes on clean tree, fails with patch,
# existing tests of the given packages pass with the patch.
set -u
id=$1; n=$2; demodir=$3; shift 3
wt=/tmp/wt-$id; sd=/tmp/seed-$id/$n
export GOFLAGS=-mod=mod GOPROXY=off
cd $wt || exit 2
git checkout -q -- . 2>/dev/null; git clean -fdq
run=$(grep -o 'func Test[A-Za-z0-9_]*' $sd/demo_test.go | sed 's/func //' | paste -sd'|')
cp $sd/demo_test.go $demodir/zz_seed_demo_test.go
a=$(go test -count=1 -run "^($run)\$" ./$demodir/ 2>&1 | tail -1)
git apply $sd/patch.diff || { echo "$id/$n: patch does not apply"; exit 1; }
b=$(go test -count=1 -run "^($run)\$" ./$demodir/ 2>&1 | tail -1)
rm -f $demodir/zz_seed_demo_test.go
c=$(go test -count=1 "$@" 2>&1 | grep -v "^ok\|no test files" | tail -3)
git checkout -q -- . ; git clean -fdq
echo "SEED $id/$n clean:[$a] patched:[$b] suite-with-patch-nonok:[$c]"
