#!/usr/bin/env python3
# Regenerates the machine-derived tables of DESIGN.md (between the STATUS markers):
# claimed properties with function/obligation counts from the last evidence, fixes, known
# findings, and which check catches which seeded change / mutant.
import json, glob, os, re
root = os.path.dirname(os.path.dirname(os.path.abspath(__file__)))
props = [json.loads(l) for l in open(os.path.join(root, 'properties.jsonl'))]
man = json.load(open(os.path.join(root, 'MANIFEST.json')))
claimed = {c['property_id'] for c in man['checks']}
out = []
out.append("### 0.3 Claimed properties (from the last committed evidence)\n")
out.append("| id | functions under contract | obligations discharged | bounded stand-ins | known findings | fixes |")
out.append("|---|---|---|---|---|---|")
kf = open(os.path.join(root, 'known_findings.txt')).read().splitlines()
for p in props:
    pid = p['id']
    if pid not in claimed:
        continue
    ev = {}
    try:
        ev = json.load(open(os.path.join(root, 'evidence', pid + '.json')))
    except Exception:
        pass
    cov = ev.get('coverage', {})
    nb = len(cov.get('bounded', []))
    nk = len([l for l in kf if l.startswith('known: property=%s ' % pid)])
    nf = len([l for l in kf if l.startswith('fixed: property=%s ' % pid)])
    out.append("| %s | %d | %s/%s | %d | %d | %d |" % (pid, len(cov.get('functions_under_contract', [])), cov.get('discharged', '?'), cov.get('obligations', '?'), nb, nk, nf))
out.append("\n### 0.4 Defects repaired (`fix:` commits in /repo)\n")
for l in kf:
    if l.startswith('fixed:'):
        m = re.match(r'fixed: property=(\S+) (\S+) (.*)', l)
        out.append("- **%s** `%s` %s" % (m.group(1), m.group(2), m.group(3)))
out.append("\n### 0.5 Known findings (recorded, not repaired)\n")
for l in kf:
    if l.startswith('known:'):
        m = re.match(r'known: property=(\S+) obligation=(.+?) signature=\S+ :: (.*)', l)
        if m:
            out.append("- **%s** `%s` — %s" % (m.group(1), m.group(2), m.group(3)))
out.append("\n### 0.6 Which check catches which seeded change\n")
out.append("Seeded changes were written by sub-agents that saw only the property text and a scratch checkout (never /verif); each was confirmed (demo passes on the clean tree, fails with the patch, existing package tests pass with the patch). `tools/run_mutants.sh` re-runs the whole corpus.\n")
out.append("| seed | what it breaks | caught by |")
out.append("|---|---|---|")
for d in sorted(glob.glob(os.path.join(root, 'seeded', '*', '*', 'meta.json'))):
    m = json.load(open(d))
    parts = d.split(os.sep)
    what = re.sub(r'\s+', ' ', m.get('what_it_breaks', ''))[:150]
    out.append("| %s/%s | %s | %s |" % (parts[-3], parts[-2], what.replace('|', '/'), m.get('caught_by', '?').replace('|', '/')))
out.append("\nReverse-fix and hand-made mutants (`mutants/*.patch`): " + ", ".join(sorted(os.path.basename(x)[:-6] for x in glob.glob(os.path.join(root, 'mutants', '*.patch')))) + ". All are reported as VIOLATION by the owning check.\n")
txt = "\n".join(out)
p = os.path.join(root, 'DESIGN.md')
s = open(p).read()
a, b = '<!-- STATUS:BEGIN -->', '<!-- STATUS:END -->'
if a in s:
    s = s[:s.index(a) + len(a)] + "\n" + txt + "\n" + s[s.index(b):]
    open(p, 'w').write(s)
    print("DESIGN.md status tables regenerated")
else:
    print("markers not found")
