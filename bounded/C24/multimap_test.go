package dsindex

// Bounded stand-in for property C24 (labelled bounded; never counted as proved):
// all operation sequences up to length 3 (thorough: every 4th sequence of length 4) over keys/values whose
// base64url encodings are string prefixes of one another ("a","ab","abc","abcd",
// "/" ...) are run against the index and against a map[string]set model; after
// every step Search/HasAny/HasValue of every key must agree with the model.
// This also exercises the two dependency assumptions of the proof: multibase
// base64url is injective and emits no '/', and datastore Query{Prefix} matches
// whole path components.

import (
	"context"
	"fmt"
	"os"
	"sort"
	"testing"

	ds "github.com/ipfs/go-datastore"
)

func TestVerifBoundedC24Multimap(t *testing.T) {
	ctx := context.Background()
	keys := []string{"a", "ab", "abc", "abcd", "/", "a/b"}
	vals := []string{"x", "xy", "xyz", "/"}
	type op struct {
		kind string
		k, v string
	}
	var alphabet []op
	for _, k := range keys {
		for _, v := range vals[:3] {
			alphabet = append(alphabet, op{"add", k, v})
		}
		alphabet = append(alphabet, op{"del", k, "x"}, op{"del", k, "xy"}, op{"delkey", k, ""})
	}
	maxLen := 3
	if os.Getenv("VERIF_TIER") == "thorough" {
		maxLen = 4
	}
	evals := 0
	check := func(seq []op) bool {
		evals++
		x := New(ds.NewMapDatastore(), ds.NewKey("/idx"))
		model := map[string]map[string]bool{}
		for i, o := range seq {
			switch o.kind {
			case "add":
				if err := x.Add(ctx, o.k, o.v); err != nil {
					t.Fatal(err)
				}
				if model[o.k] == nil {
					model[o.k] = map[string]bool{}
				}
				model[o.k][o.v] = true
			case "del":
				if err := x.Delete(ctx, o.k, o.v); err != nil {
					t.Fatal(err)
				}
				delete(model[o.k], o.v)
			case "delkey":
				n, err := x.DeleteKey(ctx, o.k)
				if err != nil {
					t.Fatal(err)
				}
				if n != len(model[o.k]) {
					t.Errorf("VERIF-FAIL C24: %v step %d: DeleteKey(%q) removed %d entries, model has %d", seq, i, o.k, n, len(model[o.k]))
					return false
				}
				delete(model, o.k)
			}
			for _, k := range keys {
				got, err := x.Search(ctx, k)
				if err != nil {
					t.Fatal(err)
				}
				sort.Strings(got)
				var want []string
				for v := range model[k] {
					want = append(want, v)
				}
				sort.Strings(want)
				if fmt.Sprint(got) != fmt.Sprint(want) {
					t.Errorf("VERIF-FAIL C24: %v step %d: Search(%q) = %v, model %v", seq, i, k, got, want)
					return false
				}
				any, err := x.HasAny(ctx, k)
				if err != nil || any != (len(want) > 0) {
					t.Errorf("VERIF-FAIL C24: %v step %d: HasAny(%q) = %v (%v), model %v", seq, i, k, any, err, len(want) > 0)
					return false
				}
				for _, v := range vals {
					has, err := x.HasValue(ctx, k, v)
					if err != nil || has != model[k][v] {
						t.Errorf("VERIF-FAIL C24: %v step %d: HasValue(%q,%q) = %v (%v), model %v", seq, i, k, v, has, err, model[k][v])
						return false
					}
				}
			}
		}
		return true
	}
	leaf := 0
	var rec func(seq []op) bool
	rec = func(seq []op) bool {
		if len(seq) == maxLen {
			leaf++
			if maxLen == 4 && leaf%4 != 0 {
				return true // thorough: every 4th of the 36^4 sequences of length 4 (all of length 3 run in the quick tier)
			}
			return check(seq)
		}
		for _, o := range alphabet {
			if !rec(append(append([]op{}, seq...), o)) {
				return false
			}
		}
		return true
	}
	rec(nil)
	fmt.Printf("BOUNDED-STATS {\"evaluations\": %d, \"distinct\": %d}\n", evals, evals)
}
