package unixfs

// Bounded stand-in for property C18 (labelled bounded; never counted as proved): for a grid of
// permission modes (plain rwx patterns, 0, setuid / setgid / sticky alone and combined) and
// modification times (zero, the epoch, before 1970, with 1 and 999999999 nanoseconds, nanoseconds
// with zero seconds), set on file, raw, symlink and directory nodes built through the FSNode API
// and through the *PBData helpers: after GetBytes / FSNodeFromBytes the mode reads back with the
// same permission and special bits, the time as the same instant (zero meaning unset), also after
// clearing and setting again; FileSize and DataSize report the content length for files and raw
// nodes (the recorded size) and the length of the target for symbolic links.

import (
	"fmt"
	"os"
	"testing"
	"time"

	pb "github.com/ipfs/boxo/ipld/unixfs/pb"
)

func TestVerifBoundedC18RoundTrip(t *testing.T) {
	const special = os.ModeSetuid | os.ModeSetgid | os.ModeSticky
	modes := []os.FileMode{0, 0o644, 0o755, 0o777, 0o001, 0o400, os.ModeSetuid, os.ModeSetgid, os.ModeSticky, os.ModeSetuid | 0o755, special, special | 0o777, os.ModeSticky | 0o001}
	times := []time.Time{{}, time.Unix(0, 0), time.Unix(0, 1), time.Unix(0, 999999999), time.Unix(-1, 0), time.Unix(-86400*365, 5), time.Unix(1700000000, 0), time.Unix(1700000000, 999999999), time.Unix(1, 1)}
	types := []pb.Data_DataType{TFile, TRaw, TSymlink, TDirectory}
	cases, fails := 0, 0
	fail := func(format string, a ...any) {
		fails++
		if fails <= 10 {
			fmt.Printf("VERIF-FAIL C18 "+format+"\n", a...)
		}
	}
	reparse := func(n *FSNode) *FSNode {
		b, err := n.GetBytes()
		if err != nil {
			t.Fatal(err)
		}
		out, err := FSNodeFromBytes(b)
		if err != nil {
			t.Fatal(err)
		}
		return out
	}
	checkStat := func(what string, n *FSNode, m os.FileMode, ts time.Time) {
		want := m & (os.ModePerm | special)
		if got := n.Mode() & (os.ModePerm | special); got != want {
			fail("%s: mode %v reads back as %v", what, want, got)
		}
		if ts.IsZero() {
			if !n.ModTime().IsZero() {
				fail("%s: unset time reads back as %v", what, n.ModTime())
			}
		} else if !n.ModTime().Equal(ts) {
			fail("%s: time %v (%d ns) reads back as %v", what, ts, ts.UnixNano(), n.ModTime())
		}
	}
	for _, ty := range types {
		for _, m := range modes {
			for _, ts := range times {
				cases++
				n := NewFSNode(ty)
				if ty == TFile || ty == TRaw || ty == TSymlink {
					n.SetData([]byte("some/target"))
				}
				n.SetMode(m)
				n.SetModTime(ts)
				id := fmt.Sprintf("[type %v mode %v time %d.%09d]", ty, m, ts.Unix(), ts.Nanosecond())
				r := reparse(n)
				checkStat(id, r, m, ts)
				// clear, then set again on the reparsed node
				r.SetMode(0)
				r.SetModTime(time.Time{})
				checkStat(id+" after clearing", reparse(r), 0, time.Time{})
				r.SetMode(m)
				r.SetModTime(ts)
				checkStat(id+" after setting again", reparse(r), m, ts)
				if ty != TDirectory {
					if got := r.FileSize(); got != uint64(len("some/target")) {
						fail("%s: FileSize() = %d, content length is %d", id, got, len("some/target"))
					}
				}
			}
		}
	}
	// nodes serialized by the helpers
	for _, data := range [][]byte{nil, []byte("x"), []byte("target/of/a/link")} {
		cases++
		sl, err := SymlinkData(string(data))
		if err != nil {
			t.Fatal(err)
		}
		for name, ser := range map[string][]byte{"SymlinkData": sl, "FilePBData": FilePBData(data, uint64(len(data))), "WrapData": WrapData(data),
			"FilePBDataWithStat": FilePBDataWithStat(data, uint64(len(data)), 0o644|os.ModeSticky, time.Unix(5, 7))} {
			n, err := FSNodeFromBytes(ser)
			if err != nil {
				t.Fatal(err)
			}
			ds, derr := DataSize(ser)
			if n.FileSize() != uint64(len(data)) || derr != nil || ds != uint64(len(data)) {
				fail("%s(%q): FileSize() = %d, DataSize = %d (err %v), content length %d", name, data, n.FileSize(), ds, derr, len(data))
			}
		}
		n, _ := FSNodeFromBytes(FilePBDataWithStat(data, uint64(len(data)), 0o644|os.ModeSticky, time.Unix(5, 7)))
		checkStat(fmt.Sprintf("FilePBDataWithStat(%q)", data), n, 0o644|os.ModeSticky, time.Unix(5, 7))
		d, _ := FSNodeFromBytes(FolderPBDataWithStat(0o755|os.ModeSetgid, time.Unix(-3, 9)))
		checkStat("FolderPBDataWithStat", d, 0o755|os.ModeSetgid, time.Unix(-3, 9))
	}
	fmt.Printf("BOUNDED-STATS {\"cases\":%d,\"failures\":%d,\"bound\":\"4 node types x %d modes x %d times, set / clear / set again, plus the serialization helpers\"}\n", cases, fails, len(modes), len(times))
	if fails > 0 {
		t.Fail()
	}
}
