package mfs

// Bounded stand-in for the visibility half of property C20 (labelled bounded; never counted as
// proved; sequential - interleavings are outside it): a file two directories down is written through
// a descriptor opened with or without Sync, the write is completed in each of the ways the API
// offers (Close; Flush then Close; Close then File.Sync), possibly followed by a chmod or touch, and the tree
// is then published in each of the ways the API offers (FlushPath of the file, of its directory, of
// the root; Root.Flush; the directory's own Flush; GetNode of the root directory). In every
// combination the data written before the completed write must be what a later read through MFS
// returns and what the published root's DAG holds at that path.

import (
	"bytes"
	"context"
	"fmt"
	"io"
	"testing"
	"time"

	dag "github.com/ipfs/boxo/ipld/merkledag"
	ft "github.com/ipfs/boxo/ipld/unixfs"
	uio "github.com/ipfs/boxo/ipld/unixfs/io"
	ipld "github.com/ipfs/go-ipld-format"
)

func TestVerifBoundedC20Visibility(t *testing.T) {
	ctx := context.Background()
	finishes := []string{"close", "flush-close", "close-sync"}
	afters := []string{"", "chmod", "touch"}
	publishes := []string{"flushpath-file", "flushpath-dir", "flushpath-root", "root-flush", "dir-flush", "root-getnode"}
	cases, fails := 0, 0
	for _, syncFlag := range []bool{true, false} {
		for _, fin := range finishes {
			for _, after := range afters {
				for _, pub := range publishes {
					for _, rewrite := range []bool{false, true} {
						cases++
						ds, rt := setupRoot(ctx, t)
						rootdir := rt.GetDirectory()
						d := mkdirP(t, rootdir, "a/b")
						fi := dag.NodeWithData(ft.FilePBData(nil, 0))
						if err := ds.Add(ctx, fi); err != nil {
							t.Fatal(err)
						}
						if err := d.AddChild("f", fi); err != nil {
							t.Fatal(err)
						}
						if _, err := FlushPath(ctx, rt, "/"); err != nil {
							t.Fatal(err)
						}
						want := []byte("first version of the content")
						write := func(data []byte) error {
							n, err := Lookup(rt, "/a/b/f")
							if err != nil {
								return err
							}
							fd, err := n.(*File).Open(ctx, Flags{Read: true, Write: true, Sync: syncFlag})
							if err != nil {
								return err
							}
							if err := fd.Truncate(0); err != nil {
								return err
							}
							if _, err := fd.Write(data); err != nil {
								return err
							}
							switch fin {
							case "flush-close":
								if err := fd.Flush(); err != nil {
									return err
								}
							case "close-sync":
								// (File.Sync waits for open write descriptors: close first)
								if err := fd.Close(); err != nil {
									return err
								}
								return n.(*File).Sync()
							}
							return fd.Close()
						}
						id := fmt.Sprintf("[Sync=%v finish=%s after=%s publish=%s rewrite=%v]", syncFlag, fin, after, pub, rewrite)
						if err := write(want); err != nil {
							t.Fatalf("%s: %v", id, err)
						}
						if rewrite {
							// publish once in between, then write again: the second content must win
							if _, err := FlushPath(ctx, rt, "/a"); err != nil {
								t.Fatal(err)
							}
							want = []byte("second version")
							if err := write(want); err != nil {
								t.Fatalf("%s: %v", id, err)
							}
						}
						switch after {
						case "chmod":
							if err := Chmod(rt, "/a/b/f", 0o640); err != nil {
								t.Fatal(err)
							}
						case "touch":
							if err := Touch(rt, "/a/b/f", time.Unix(1700000000, 0)); err != nil {
								t.Fatal(err)
							}
						}
						var perr error
						switch pub {
						case "flushpath-file":
							_, perr = FlushPath(ctx, rt, "/a/b/f")
						case "flushpath-dir":
							_, perr = FlushPath(ctx, rt, "/a/b")
						case "flushpath-root":
							_, perr = FlushPath(ctx, rt, "/")
						case "root-flush":
							perr = rt.Flush()
						case "dir-flush":
							perr = d.Flush()
						case "root-getnode":
							_, perr = rootdir.GetNode()
						}
						if perr != nil {
							t.Fatalf("%s: publish: %v", id, perr)
						}
						bad := ""
						// through MFS
						if n, err := Lookup(rt, "/a/b/f"); err != nil {
							bad = "lookup: " + err.Error()
						} else if fd, err := n.(*File).Open(ctx, Flags{Read: true}); err != nil {
							bad = "open: " + err.Error()
						} else {
							got, err := io.ReadAll(fd)
							fd.Close()
							if err != nil || !bytes.Equal(got, want) {
								bad = fmt.Sprintf("a read through MFS returns %q (err %v), written and completed: %q", got, err, want)
							}
						}
						// through the published root
						if bad == "" {
							rnd, err := rootdir.GetNode()
							var cur ipld.Node = rnd
							for _, seg := range []string{"a", "b", "f"} {
								if err != nil {
									break
								}
								var dir uio.Directory
								dir, err = uio.NewDirectoryFromNode(ds, cur)
								if err == nil {
									cur, err = dir.Find(ctx, seg)
								}
							}
							if err != nil {
								bad = "walking the published root: " + err.Error()
							} else if r, err := uio.NewDagReader(ctx, cur, ds); err != nil {
								bad = "reading the published file: " + err.Error()
							} else if got, err := io.ReadAll(r); err != nil || !bytes.Equal(got, want) {
								bad = fmt.Sprintf("the published root holds %q at /a/b/f (err %v), written and completed: %q", got, err, want)
							}
						}
						if bad != "" {
							fails++
							if fails <= 10 {
								fmt.Printf("VERIF-FAIL C20 %s: %s\n", id, bad)
							}
						}
					}
				}
			}
		}
	}
	fmt.Printf("BOUNDED-STATS {\"cases\":%d,\"failures\":%d,\"bound\":\"Sync on/off x 3 ways to complete a write x 3 follow-ups x 6 ways to publish x with/without an earlier publish and rewrite\"}\n", cases, fails)
	if fails > 0 {
		t.Fail()
	}
}
