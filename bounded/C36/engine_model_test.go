//go:build go1.25

package decision

// Bounded stand-in for the "what the server sends" part of property C36 (labelled bounded; never
// counted as proved): every sequence of 3 and every 7th of 4 (thorough: all of 4, every 23rd of 5) events out of
//   want-block / want-have of one of 4 CIDs (with and without send-dont-have), cancel of a CID,
//   a block being added to the store (with NotifyNewBlocks), a block being removed from the
//   store, and "send everything that is queued"
// is fed to a real Engine (one remote peer; want-have replace size 100 bytes; CIDs: a 2000-byte
// block that is present, a 10-byte block that is present, a 2000-byte block that is absent at
// first and may be added, a block that is never present). Every envelope the engine hands out is
// checked when it is taken from the outbox, and after a final "send everything":
//   - a block is sent only if it is in the store at that moment and the peer wants it (has asked
//     for it and has not cancelled since); HAVE only for a block the store held when the want
//     arrived or holds now, and only if wanted; DONT_HAVE only for a block absent from the store
//     (when the want arrived or now) whose want asked for DONT_HAVE;
//   - every want still standing is answered: a want-block whose block is in the store got the
//     block; a want-have got HAVE or the block; a want with send-dont-have for a block that was
//     never there got DONT_HAVE.

import (
	"context"
	"fmt"
	"os"
	"strings"
	"testing"
	"time"

	"github.com/ipfs/boxo/bitswap/message"
	pb "github.com/ipfs/boxo/bitswap/message/pb"
	blockstore "github.com/ipfs/boxo/blockstore"
	blocks "github.com/ipfs/go-block-format"
	cid "github.com/ipfs/go-cid"
	ds "github.com/ipfs/go-datastore"
	dssync "github.com/ipfs/go-datastore/sync"
	peer "github.com/libp2p/go-libp2p/core/peer"
)

func TestVerifBoundedC36EngineModel(t *testing.T) {
	ctx := context.Background()
	mkBlock := func(tag string, size int) blocks.Block {
		b := make([]byte, size)
		copy(b, tag)
		return blocks.NewBlock(b)
	}
	blks := []blocks.Block{mkBlock("big-present", 2000), mkBlock("small-present", 10), mkBlock("big-later", 2000), mkBlock("never", 2000)}
	idx := map[cid.Cid]int{}
	for i, b := range blks {
		idx[b.Cid()] = i
	}
	type op struct {
		kind string // wb wh cancel add rm send
		c    int
		dh   bool
	}
	var ops []op
	for c := range blks {
		for _, dh := range []bool{false, true} {
			ops = append(ops, op{"wb", c, dh}, op{"wh", c, dh})
		}
		ops = append(ops, op{"cancel", c, false})
	}
	ops = append(ops, op{"add", 2, false}, op{"rm", 0, false}, op{"send", 0, false})
	type plan struct{ seqLen, stride int }
	plans := []plan{{3, 1}, {4, 7}}
	if os.Getenv("VERIF_TIER") == "thorough" {
		plans = []plan{{4, 1}, {5, 23}}
	}
	p := peer.ID("remote")
	cases, fails := 0, 0
	knownShape, otherShape := 0, 0
	for _, pl := range plans {
		seqLen, stride := pl.seqLen, pl.stride
		total := 1
		for i := 0; i < seqLen; i++ {
			total *= len(ops)
		}
		for _, limit := range []int{0, 2} {
			for n := 0; n < total; n += stride {
				if limit > 0 {
					// with a want-list limit only histories that never ask for more CIDs than the limit
					// are modelled (no eviction)
					distinct := map[int]bool{}
					for i, k := 0, n; i < seqLen; i++ {
						if o := ops[k%len(ops)]; o.kind == "wb" || o.kind == "wh" {
							distinct[o.c] = true
						}
						k /= len(ops)
					}
					if len(distinct) > limit {
						continue
					}
				}
				cases++
				bs := blockstore.NewBlockstore(dssync.MutexWrap(ds.NewMapDatastore()))
				inStore := map[int]bool{0: true, 1: true}
				bs.Put(ctx, blks[0])
				bs.Put(ctx, blks[1])
				engOpts := []Option{WithScoreLedger(NewTestScoreLedger(shortTerm, nil)), WithBlockstoreWorkerCount(2), WithTaskWorkerCount(1)}
				if limit > 0 {
					engOpts = append(engOpts, WithMaxQueuedWantlistEntriesPerPeer(uint(limit)))
				}
				e := newEngineForTesting(bs, &fakePeerTagger{}, "localhost", 100, engOpts...)
				type want struct {
					block, dh     bool
					presentAtAsk  bool
					gotBlock      bool
					gotHave       bool
					gotDontHave   bool
					removedSince  bool
					addedSince    bool
					standing      bool
					everAbsentAsk bool
					latestBlock   bool // the most recent request was a want-block
					repeatAtLimit bool // requested again while the peer's task queue was at the want-list limit
				}
				queued := map[int]bool{} // CIDs with a task presumably still queued (requested since the last send)
				wants := map[int]*want{}
				var trace []string
				bad := ""
				var next <-chan *Envelope
				drain := func() {
					deadline := time.Now().Add(5 * time.Second)
					for bad == "" {
						st := e.peerRequestQueue.Stats()
						if st.NumPending == 0 && st.NumActive == 0 {
							return
						}
						if next == nil {
							select {
							case next = <-e.Outbox():
							case <-time.After(5 * time.Second):
								bad = "no task worker offers an envelope although tasks are queued"
								return
							}
						}
						select {
						case env, ok := <-next:
							next = nil
							if !ok || env == nil {
								bad = "the envelope channel was closed while tasks were queued"
								return
							}
							for _, b := range env.Message.Blocks() {
								c := idx[b.Cid()]
								w := wants[c]
								switch {
								case !inStore[c]:
									bad = fmt.Sprintf("sent block %d which is not in the store", c)
								case w == nil || !w.standing:
									bad = fmt.Sprintf("sent block %d which the peer does not want (never asked, cancelled, or already served)", c)
								default:
									w.gotBlock = true
								}
							}
							for _, bp := range env.Message.BlockPresences() {
								c := idx[bp.Cid]
								w := wants[c]
								if w == nil || !w.standing {
									bad = fmt.Sprintf("sent %v for %d which the peer does not want", bp.Type, c)
									continue
								}
								if bp.Type == pb.Message_Have {
									if !inStore[c] && !w.presentAtAsk {
										bad = fmt.Sprintf("sent HAVE for %d, which was not in the store when the want arrived and is not now", c)
									}
									w.gotHave = true
								} else {
									if inStore[c] && !w.everAbsentAsk && !w.removedSince {
										bad = fmt.Sprintf("sent DONT_HAVE for %d, which has been in the store all along", c)
									}
									if !w.dh {
										bad = fmt.Sprintf("sent DONT_HAVE for %d although the want did not ask for it", c)
									}
									w.gotDontHave = true
								}
							}
							e.MessageSent(env.Peer, env.Message)
							env.Sent()
							// what MessageSent removes from the peer's want-list
							for _, b := range env.Message.Blocks() {
								if w := wants[idx[b.Cid()]]; w != nil {
									w.standing = false
								}
							}
							for _, bp := range env.Message.BlockPresences() {
								if w := wants[idx[bp.Cid]]; w != nil && bp.Type == pb.Message_Have && !w.block {
									w.standing = false
								}
							}
						case <-time.After(time.Millisecond):
							if time.Now().After(deadline) {
								bad = "queued tasks are not turned into an envelope within 5 s"
								return
							}
						}
					}
				}
				for i, k := 0, n; i < seqLen; i++ {
					o := ops[k%len(ops)]
					k /= len(ops)
					trace = append(trace, fmt.Sprintf("%s%d%v", o.kind, o.c, map[bool]string{true: "+dh", false: ""}[o.dh]))
					switch o.kind {
					case "wb", "wh":
						m := message.New(false)
						wt := pb.Message_Wantlist_Have
						if o.kind == "wb" {
							wt = pb.Message_Wantlist_Block
						}
						m.AddEntry(blks[o.c].Cid(), 1, wt, o.dh)
						e.MessageReceived(ctx, p, m)
						atLimit := limit > 0 && queued[o.c] && len(queued) >= limit
						if w := wants[o.c]; w != nil && w.standing {
							// a repeated request before the first is served: what was asked accumulates
							// (tasks queued for the earlier request may still be answered as asked then)
							w.block = w.block || o.kind == "wb"
							w.dh = w.dh || o.dh
							w.presentAtAsk = w.presentAtAsk || inStore[o.c]
							w.everAbsentAsk = w.everAbsentAsk || !inStore[o.c]
							w.latestBlock = o.kind == "wb"
							w.repeatAtLimit = w.repeatAtLimit || atLimit
						} else {
							wants[o.c] = &want{block: o.kind == "wb", dh: o.dh, presentAtAsk: inStore[o.c], everAbsentAsk: !inStore[o.c], standing: true, latestBlock: o.kind == "wb"}
						}
						queued[o.c] = true
					case "cancel":
						m := message.New(false)
						m.Cancel(blks[o.c].Cid())
						e.MessageReceived(ctx, p, m)
						delete(wants, o.c)
						delete(queued, o.c)
					case "add":
						if !inStore[o.c] {
							bs.Put(ctx, blks[o.c])
							inStore[o.c] = true
							if w := wants[o.c]; w != nil {
								w.addedSince = true
								if limit > 0 && queued[o.c] && len(queued) >= limit {
									w.repeatAtLimit = true
								}
							}
							e.NotifyNewBlocks([]blocks.Block{blks[o.c]})
						}
					case "rm":
						if inStore[o.c] {
							bs.DeleteBlock(ctx, blks[o.c].Cid())
							inStore[o.c] = false
							if w := wants[o.c]; w != nil {
								w.removedSince = true
							}
						}
					case "send":
						drain()
						queued = map[int]bool{}
					}
				}
				drain()
				if bad == "" {
					for c, w := range wants {
						if !w.standing {
							continue // served and taken off the peer's list
						}
						switch {
						case w.removedSince:
							// the block went away after the want arrived: DONT_HAVE if asked for, else silence
						case inStore[c] && w.latestBlock && !w.gotBlock:
							// (a want-have sent after a want-block for the same CID is no upgrade: the
							// server may answer the latest request)
							bad = fmt.Sprintf("want-block %d is in the store and was never sent", c)
						case inStore[c] && !w.block && !w.gotHave && !w.gotBlock:
							bad = fmt.Sprintf("want-have %d is in the store and was answered neither with HAVE nor with the block", c)
						case !inStore[c] && !w.presentAtAsk && w.dh && !w.gotDontHave && !w.addedSince:
							bad = fmt.Sprintf("want %d with send-dont-have for a block that is not in the store got no DONT_HAVE", c)
						}
						if bad != "" && w.repeatAtLimit && !strings.Contains(bad, "task queue was at the want-list limit") {
							bad += " (a task for a CID already queued was pushed while the peer's task queue was at the want-list limit)"
						}
					}
				}
				e.Close()
				if bad != "" {
					fails++
					// failures of the recorded shape must not crowd out a different one
					known := strings.Contains(bad, "task queue was at the want-list limit")
					if known {
						knownShape++
					} else {
						otherShape++
					}
					if (known && knownShape <= 4) || (!known && otherShape <= 10) {
						fmt.Printf("VERIF-FAIL C36 [want-list limit %d] %v: %s\n", limit, trace, bad)
					}
				}
			}
		}
	}
	fmt.Printf("BOUNDED-STATS {\"cases\":%d,\"failures\":%d,\"bound\":\"%d events, sequence lengths and strides %v, want-list limit unlimited and 2 (histories within the limit), one peer, 4 CIDs, want-have replace size 100\"}\n", cases, fails, len(ops), plans)
	if fails > 0 {
		t.Fail()
	}
}
