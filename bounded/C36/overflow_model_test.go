//go:build go1.25

package decision

// Bounded stand-in for the overflow part of property C36 (labelled bounded; never counted as proved):
// a peer's want-list is filled to its limit of 3 with wants of distinct priorities (every choice of 3
// out of {1,4,6,9}), each with or without its block in the store (all 8 combinations); then one
// message brings 1..3 newcomers (every subset of priorities {0,3,5,7,8,10}, blocks present). The
// resulting want-list must be the one the rule gives: existing wants without a local block go first
// (lowest priority first), each in favour of the most important remaining newcomer; then the
// remaining newcomers, most important first, replace the least important remaining existing wants as
// long as they are at least as important; the list never exceeds the limit and holds no want twice.

import (
	"context"
	"fmt"
	"sort"
	"testing"

	"github.com/ipfs/boxo/bitswap/message"
	pb "github.com/ipfs/boxo/bitswap/message/pb"
	blockstore "github.com/ipfs/boxo/blockstore"
	blocks "github.com/ipfs/go-block-format"
	ds "github.com/ipfs/go-datastore"
	dssync "github.com/ipfs/go-datastore/sync"
	peer "github.com/libp2p/go-libp2p/core/peer"
)

func TestVerifBoundedC36OverflowModel(t *testing.T) {
	ctx := context.Background()
	existingPool := []int32{1, 4, 6, 9}
	newPool := []int32{0, 3, 5, 7, 8, 10}
	blk := func(prio int32) blocks.Block { return blocks.NewBlock(fmt.Append(nil, "overflow-block-", prio)) }
	p := peer.ID("remote")
	cases, fails := 0, 0
	for skip := range existingPool {
		var existing []int32
		for i, v := range existingPool {
			if i != skip {
				existing = append(existing, v)
			}
		}
		for present := 0; present < 8; present++ {
			for nmask := 1; nmask < 1<<len(newPool); nmask++ {
				var newcomers []int32
				for i, v := range newPool {
					if nmask&(1<<i) != 0 {
						newcomers = append(newcomers, v)
					}
				}
				if len(newcomers) > 3 {
					continue
				}
				cases++
				bs := blockstore.NewBlockstore(dssync.MutexWrap(ds.NewMapDatastore()))
				hasBlock := map[int32]bool{}
				for i, v := range existing {
					if present&(1<<i) != 0 {
						bs.Put(ctx, blk(v))
						hasBlock[v] = true
					}
				}
				for _, v := range newcomers {
					bs.Put(ctx, blk(v))
				}
				e := newEngineForTesting(bs, &fakePeerTagger{}, "localhost", 0, WithScoreLedger(NewTestScoreLedger(shortTerm, nil)), WithBlockstoreWorkerCount(2), WithMaxQueuedWantlistEntriesPerPeer(3))
				m := message.New(false)
				for _, v := range existing {
					m.AddEntry(blk(v).Cid(), v, pb.Message_Wantlist_Block, false)
				}
				e.MessageReceived(ctx, p, m)
				m = message.New(false)
				for _, v := range newcomers {
					m.AddEntry(blk(v).Cid(), v, pb.Message_Wantlist_Block, false)
				}
				e.MessageReceived(ctx, p, m)
				var got []int
				seen := map[string]bool{}
				dup := false
				for _, w := range e.WantlistForPeer(p) {
					got = append(got, int(w.Priority))
					dup = dup || seen[w.Cid.KeyString()]
					seen[w.Cid.KeyString()] = true
				}
				e.Close()
				sort.Ints(got)
				// the rule
				keep := append([]int32{}, existing...) // ascending
				over := append([]int32{}, newcomers...)
				sort.Slice(over, func(i, j int) bool { return over[i] > over[j] })
				var final []int
				var rest []int32
				for _, v := range keep {
					if !hasBlock[v] && len(over) > 0 {
						final = append(final, int(over[0]))
						over = over[1:]
					} else {
						rest = append(rest, v)
					}
				}
				for len(over) > 0 && len(rest) > 0 && over[0] >= rest[0] {
					final = append(final, int(over[0]))
					over, rest = over[1:], rest[1:]
				}
				for _, v := range rest {
					final = append(final, int(v))
				}
				sort.Ints(final)
				if fmt.Sprint(got) != fmt.Sprint(final) || len(got) > 3 || dup {
					fails++
					if fails <= 10 {
						fmt.Printf("VERIF-FAIL C36 [limit 3, existing priorities %v with blocks %v, newcomers %v]: want-list holds priorities %v, the eviction rule gives %v\n", existing, hasBlock, newcomers, got, final)
					}
				}
			}
		}
	}
	fmt.Printf("BOUNDED-STATS {\"cases\":%d,\"failures\":%d,\"bound\":\"limit 3: 4 sets of existing priorities x 8 block-presence patterns x 41 sets of 1..3 newcomers\"}\n", cases, fails)
	if fails > 0 {
		t.Fail()
	}
}
