//go:build go1.25

package decision

// Bounded stand-in for property C36 with two peers (labelled bounded; never counted as proved): every
// sequence of 5 events out of {peer 1 / peer 2 sends want-have or want-block for a 2000-byte block that
// is in the store or for one that arrives later; that block arrives (NotifyNewBlocks); send everything
// queued} runs on a real Engine (want-have replace size 100). Every envelope is checked against what
// its own addressee asked for: a block goes only to a peer that has a standing want for it and - the
// block being larger than the replace size - has asked for it as want-block; HAVE only to a peer with a
// standing want; after the final send every standing want for a stored block has been answered with what
// that peer asked for. What one peer asks must never change what the other is sent.

import (
	"context"
	"fmt"
	"os"
	"testing"
	"time"

	"github.com/ipfs/boxo/bitswap/message"
	pb "github.com/ipfs/boxo/bitswap/message/pb"
	blockstore "github.com/ipfs/boxo/blockstore"
	blocks "github.com/ipfs/go-block-format"
	cid "github.com/ipfs/go-cid"
	ds "github.com/ipfs/go-datastore"
	dssync "github.com/ipfs/go-datastore/sync"
	peer "github.com/libp2p/go-libp2p/core/peer"
)

func TestVerifBoundedC36TwoPeers(t *testing.T) {
	ctx := context.Background()
	mk := func(tag string) blocks.Block {
		b := make([]byte, 2000)
		copy(b, tag)
		return blocks.NewBlock(b)
	}
	blks := []blocks.Block{mk("two-peers-present"), mk("two-peers-later")}
	idx := map[cid.Cid]int{blks[0].Cid(): 0, blks[1].Cid(): 1}
	peers := []peer.ID{"peer-one", "peer-two"}
	pidx := map[peer.ID]int{peers[0]: 0, peers[1]: 1}
	type op struct {
		kind string // wh wb add send
		p, c int
	}
	var ops []op
	for p := range peers {
		for c := range blks {
			ops = append(ops, op{"wh", p, c}, op{"wb", p, c})
		}
	}
	ops = append(ops, op{"add", 0, 1}, op{"send", 0, 0})
	seqLen, stride := 5, 3
	if os.Getenv("VERIF_TIER") == "thorough" {
		stride = 1
	}
	total := 1
	for i := 0; i < seqLen; i++ {
		total *= len(ops)
	}
	type want struct {
		askedBlock, latestBlock, standing bool
		gotBlock, gotHave              bool
	}
	cases, fails := 0, 0
	for n := 0; n < total; n += stride {
		cases++
		bs := blockstore.NewBlockstore(dssync.MutexWrap(ds.NewMapDatastore()))
		bs.Put(ctx, blks[0])
		inStore := map[int]bool{0: true}
		e := newEngineForTesting(bs, &fakePeerTagger{}, "localhost", 100, WithScoreLedger(NewTestScoreLedger(shortTerm, nil)), WithBlockstoreWorkerCount(2), WithTaskWorkerCount(1))
		wants := map[[2]int]*want{}
		var trace []string
		bad := ""
		var next <-chan *Envelope
		drain := func() {
			deadline := time.Now().Add(5 * time.Second)
			for bad == "" {
				st := e.peerRequestQueue.Stats()
				if st.NumPending == 0 && st.NumActive == 0 {
					return
				}
				if next == nil {
					select {
					case next = <-e.Outbox():
					case <-time.After(5 * time.Second):
						bad = "no envelope offered although tasks are queued"
						return
					}
				}
				select {
				case env, ok := <-next:
					next = nil
					if !ok || env == nil {
						bad = "envelope channel closed while tasks were queued"
						return
					}
					pi := pidx[env.Peer]
					for _, b := range env.Message.Blocks() {
						c := idx[b.Cid()]
						w := wants[[2]int{pi, c}]
						switch {
						case !inStore[c]:
							bad = fmt.Sprintf("peer %d was sent block %d, which is not in the store", pi+1, c)
						case w == nil || !w.standing:
							bad = fmt.Sprintf("peer %d was sent block %d without a standing want for it", pi+1, c)
						case !w.askedBlock:
							bad = fmt.Sprintf("peer %d asked only whether block %d (2000 bytes, above the replace size) is there and was sent the block", pi+1, c)
						default:
							w.gotBlock, w.standing = true, false
						}
					}
					for _, bp := range env.Message.BlockPresences() {
						c := idx[bp.Cid]
						w := wants[[2]int{pi, c}]
						if w == nil || !w.standing {
							bad = fmt.Sprintf("peer %d was sent %v for %d without a standing want for it", pi+1, bp.Type, c)
						} else if bp.Type == pb.Message_Have {
							w.gotHave = true
							if !w.latestBlock && !w.askedBlock {
								w.standing = false
							}
						} else {
							bad = fmt.Sprintf("peer %d was sent DONT_HAVE for %d without asking for it", pi+1, c)
						}
					}
					e.MessageSent(env.Peer, env.Message)
					env.Sent()
				case <-time.After(time.Millisecond):
					if time.Now().After(deadline) {
						bad = "queued tasks are not turned into an envelope within 5 s"
						return
					}
				}
			}
		}
		for i, k := 0, n; i < seqLen; i++ {
			o := ops[k%len(ops)]
			k /= len(ops)
			trace = append(trace, fmt.Sprintf("%s[p%d,c%d]", o.kind, o.p+1, o.c))
			switch o.kind {
			case "wh", "wb":
				m := message.New(false)
				wt := pb.Message_Wantlist_Have
				if o.kind == "wb" {
					wt = pb.Message_Wantlist_Block
				}
				m.AddEntry(blks[o.c].Cid(), 1, wt, false)
				e.MessageReceived(ctx, peers[o.p], m)
				key := [2]int{o.p, o.c}
				if w := wants[key]; w != nil && w.standing {
					w.askedBlock = w.askedBlock || o.kind == "wb"
					w.latestBlock = o.kind == "wb"
				} else {
					wants[key] = &want{askedBlock: o.kind == "wb", latestBlock: o.kind == "wb", standing: true}
				}
			case "add":
				if !inStore[o.c] {
					bs.Put(ctx, blks[o.c])
					inStore[o.c] = true
					e.NotifyNewBlocks([]blocks.Block{blks[o.c]})
				}
			case "send":
				drain()
			}
		}
		drain()
		if bad == "" {
			for key, w := range wants {
				if !w.standing || !inStore[key[1]] {
					continue
				}
				if w.latestBlock && !w.gotBlock {
					bad = fmt.Sprintf("peer %d's want-block %d is in the store and was never sent", key[0]+1, key[1])
				} else if !w.latestBlock && !w.gotHave && !w.gotBlock {
					bad = fmt.Sprintf("peer %d's want-have %d is in the store and was never answered", key[0]+1, key[1])
				}
			}
		}
		e.Close()
		if bad != "" {
			fails++
			if fails <= 10 {
				fmt.Printf("VERIF-FAIL C36 %v: %s\n", trace, bad)
			}
		}
	}
	fmt.Printf("BOUNDED-STATS {\"cases\":%d,\"failures\":%d,\"bound\":\"two peers, 2 CIDs, %d events, every %d-th sequence of %d\"}\n", cases, fails, len(ops), stride, seqLen)
	if fails > 0 {
		t.Fail()
	}
}
