package blockstore

// Bounded stand-in for property C03 (labelled bounded; never counted as proved): a backing store
// that answers with the wrong bytes - under every CID of a small set (CIDv0, CIDv1 raw / dag-pb,
// sha2-256 and sha2-512, and a CID whose block is missing) it holds the block of another CID, an
// empty block, a block with one flipped byte, or the right block - is wrapped in a
// ValidatingBlockstore, alone and below the identity store and the 2Q/Bloom caches. Every way of
// getting bytes out that the resulting value offers (Get, and View when it implements Viewer) must
// either fail or deliver bytes that hash to the requested CID. The backing store itself offers
// View, so that a layer that forwards View without validating is exercised.

import (
	"context"
	"fmt"
	"testing"

	blocks "github.com/ipfs/go-block-format"
	cid "github.com/ipfs/go-cid"
	ipld "github.com/ipfs/go-ipld-format"
	mh "github.com/multiformats/go-multihash"
)

type verifC03Lying struct {
	answers map[string][]byte // multihash -> bytes handed out (nil: not found)
}

func (s *verifC03Lying) lookup(c cid.Cid) ([]byte, bool) {
	b, ok := s.answers[string(c.Hash())]
	return b, ok && b != nil
}
func (s *verifC03Lying) DeleteBlock(context.Context, cid.Cid) error { return nil }
func (s *verifC03Lying) Has(_ context.Context, c cid.Cid) (bool, error) {
	_, ok := s.lookup(c)
	return ok, nil
}
func (s *verifC03Lying) Get(_ context.Context, c cid.Cid) (blocks.Block, error) {
	b, ok := s.lookup(c)
	if !ok {
		return nil, ipld.ErrNotFound{Cid: c}
	}
	// (NewBlockWithCid does not check the hash outside debug mode: a store may hand out anything)
	return blocks.NewBlockWithCid(b, c)
}
func (s *verifC03Lying) GetSize(_ context.Context, c cid.Cid) (int, error) {
	b, ok := s.lookup(c)
	if !ok {
		return -1, ipld.ErrNotFound{Cid: c}
	}
	return len(b), nil
}
func (s *verifC03Lying) View(_ context.Context, c cid.Cid, f func([]byte) error) error {
	b, ok := s.lookup(c)
	if !ok {
		return ipld.ErrNotFound{Cid: c}
	}
	return f(b)
}
func (s *verifC03Lying) Put(context.Context, blocks.Block) error       { return nil }
func (s *verifC03Lying) PutMany(context.Context, []blocks.Block) error { return nil }
func (s *verifC03Lying) AllKeysChan(context.Context) (<-chan cid.Cid, error) {
	ch := make(chan cid.Cid)
	close(ch)
	return ch, nil
}

func TestVerifBoundedC03ReadPaths(t *testing.T) {
	ctx := context.Background()
	data := [][]byte{[]byte("block one"), []byte("block two, a little longer"), []byte("3"), {}}
	var cids []cid.Cid
	for i, d := range data {
		for _, code := range []uint64{mh.SHA2_256, mh.SHA2_512} {
			h, err := mh.Sum(d, code, -1)
			if err != nil {
				t.Fatal(err)
			}
			if code == mh.SHA2_256 && i%2 == 0 {
				cids = append(cids, cid.NewCidV0(h))
			}
			cids = append(cids, cid.NewCidV1(cid.Raw, h), cid.NewCidV1(cid.DagProtobuf, h))
		}
	}
	dataOf := map[string][]byte{}
	for _, c := range cids {
		for _, d := range data {
			if h, _ := mh.Sum(d, c.Prefix().MhType, -1); string(h) == string(c.Hash()) {
				dataOf[string(c.Hash())] = d
			}
		}
	}
	hashesTo := func(b []byte, c cid.Cid) bool {
		h, err := mh.Sum(b, c.Prefix().MhType, c.Prefix().MhLength)
		return err == nil && string(h) == string(c.Hash())
	}
	cases, fails := 0, 0
	fail := func(format string, a ...any) {
		fails++
		if fails <= 10 {
			fmt.Printf("VERIF-FAIL C03 "+format+"\n", a...)
		}
	}
	for _, c := range cids {
		right := dataOf[string(c.Hash())]
		flipped := append([]byte{0xff}, right...)
		for li, lie := range [][]byte{right, data[1], {}, flipped, nil} {
			if li == 1 && string(right) == string(data[1]) {
				lie = data[0]
			}
			base := &verifC03Lying{answers: map[string][]byte{string(c.Hash()): lie}}
			vbs := &ValidatingBlockstore{Blockstore: base}
			stacks := map[string]Blockstore{"validating": vbs, "idstore(validating)": NewIdStore(vbs)}
			if cached, err := CachedBlockstore(ctx, vbs, DefaultCacheOpts()); err == nil {
				stacks["cached(validating)"] = cached
			}
			for name, bs := range stacks {
				cases++
				if blk, err := bs.Get(ctx, c); err == nil && !hashesTo(blk.RawData(), c) {
					fail("[%s, store answers %s with %q] Get returned bytes %q that do not hash to the CID", name, c, lie, blk.RawData())
				}
				if v, ok := bs.(Viewer); ok {
					var seen []byte
					got := false
					err := v.View(ctx, c, func(b []byte) error { seen, got = append([]byte(nil), b...), true; return nil })
					if err == nil && got && !hashesTo(seen, c) {
						fail("[%s, store answers %s with %q] View handed out bytes %q that do not hash to the CID", name, c, lie, seen)
					}
				}
			}
		}
	}
	fmt.Printf("BOUNDED-STATS {\"cases\":%d,\"failures\":%d,\"bound\":\"%d CIDs x 5 answers of the backing store x 3 stacks, Get and View\"}\n", cases, fails, len(cids))
	if fails > 0 {
		t.Fail()
	}
}
