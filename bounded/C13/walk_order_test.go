package walker

// Bounded stand-in for property C13 (labelled bounded; never counted as proved):
//  - every forward-edge DAG over 5 nodes with links in ascending and in descending order (quick: every 3rd of the 2048 combinations), where node 3
//    carries an identity-hash CID, with every single node non-local or none: WalkDAG with an exact
//    tracker emits exactly the depth-first pre-order (children in link order) of the nodes reachable
//    through local nodes, each once, never an identity CID, never a non-local one; a second walk
//    sharing the tracker emits nothing;
//  - the Bloom-chain tracker at minimum capacity: 60 000 distinct CIDs (two growth steps) are each
//    new at most once, and none of those reported new is ever reported new again.

import (
	"context"
	"fmt"
	"os"
	"testing"

	cid "github.com/ipfs/go-cid"
	mh "github.com/multiformats/go-multihash"
)

func TestVerifBoundedC13WalkOrder(t *testing.T) {
	const n = 5
	ctx := context.Background()
	cids := make([]cid.Cid, n)
	for i := range cids {
		code := uint64(mh.SHA2_256)
		if i == 3 {
			code = mh.IDENTITY
		}
		h, err := mh.Sum([]byte(fmt.Sprintf("node-%d", i)), code, -1)
		if err != nil {
			t.Fatal(err)
		}
		cids[i] = cid.NewCidV1(cid.Raw, h)
	}
	idx := map[string]int{}
	for i, c := range cids {
		idx[c.KeyString()] = i
	}
	type edge struct{ a, b int }
	var edges []edge
	for a := 0; a < n; a++ {
		for b := a + 1; b < n; b++ {
			edges = append(edges, edge{a, b})
		}
	}
	stride := 3
	if os.Getenv("VERIF_TIER") == "thorough" {
		stride = 1
	}
	cases, fails := 0, 0
	for run := 0; run < 2*(1<<len(edges)); run += stride {
		mask, descending := run/2, run%2 == 1
		adj := make([][]int, n)
		for i, e := range edges {
			if mask&(1<<i) != 0 {
				adj[e.a] = append(adj[e.a], e.b)
			}
		}
		// every edge set is walked with links in ascending and in descending index order
		if descending {
			for a := range adj {
				for i, j := 0, len(adj[a])-1; i < j; i, j = i+1, j-1 {
					adj[a][i], adj[a][j] = adj[a][j], adj[a][i]
				}
			}
		}
		for nonLocal := -1; nonLocal < n; nonLocal++ {
			cases++
			fetch := func(_ context.Context, c cid.Cid) ([]cid.Cid, error) {
				var out []cid.Cid
				for _, b := range adj[idx[c.KeyString()]] {
					out = append(out, cids[b])
				}
				return out, nil
			}
			local := func(_ context.Context, c cid.Cid) (bool, error) { return idx[c.KeyString()] != nonLocal, nil }
			// model
			var want []int
			seen := map[int]bool{}
			var dfs func(i int)
			dfs = func(i int) {
				if seen[i] {
					return
				}
				seen[i] = true
				if i == nonLocal {
					return
				}
				if i != 3 {
					want = append(want, i)
				}
				for _, b := range adj[i] {
					dfs(b)
				}
			}
			dfs(0)
			tr := NewMapTracker()
			var got []int
			err := WalkDAG(ctx, cids[0], fetch, func(c cid.Cid) bool { got = append(got, idx[c.KeyString()]); return true }, WithVisitedTracker(tr), WithLocality(local))
			if err != nil || fmt.Sprint(got) != fmt.Sprint(want) {
				fails++
				if fails <= 10 {
					fmt.Printf("VERIF-FAIL C13 [edges=%010b non-local=%d]: emitted %v (err %v), pre-order of the locally reachable non-identity nodes is %v\n", mask, nonLocal, got, err, want)
				}
				continue
			}
			var again []int
			WalkDAG(ctx, cids[0], fetch, func(c cid.Cid) bool { again = append(again, idx[c.KeyString()]); return true }, WithVisitedTracker(tr), WithLocality(local))
			if len(again) != 0 {
				fails++
				if fails <= 10 {
					fmt.Printf("VERIF-FAIL C13 [edges=%010b non-local=%d]: a second walk with the same tracker emitted %v\n", mask, nonLocal, again)
				}
			}
		}
	}
	// Bloom chain across growth
	bt, err := NewBloomTracker(MinBloomCapacity, 1000000)
	if err != nil {
		t.Fatal(err)
	}
	total := 60000
	newOnes := make([]cid.Cid, 0, total)
	for i := 0; i < total; i++ {
		h, _ := mh.Sum([]byte(fmt.Sprintf("bloom-%d", i)), mh.SHA2_256, -1)
		c := cid.NewCidV1(cid.Raw, h)
		if bt.Visit(c) {
			newOnes = append(newOnes, c)
		}
	}
	cases++
	if len(bt.chain) < 3 {
		fails++
		fmt.Printf("VERIF-FAIL C13 bloom chain did not grow twice (chain length %d)\n", len(bt.chain))
	}
	if len(newOnes) < total-50 {
		fails++
		fmt.Printf("VERIF-FAIL C13 only %d of %d distinct CIDs were reported new\n", len(newOnes), total)
	}
	for _, c := range newOnes {
		if bt.Visit(c) || !bt.Has(c) {
			fails++
			fmt.Printf("VERIF-FAIL C13 %s was visited and is reported unvisited again\n", c)
			break
		}
	}
	fmt.Printf("BOUNDED-STATS {\"cases\":%d,\"failures\":%d}\n", cases, fails)
	if fails > 0 {
		t.Fail()
	}
}
