package mod

// Bounded stand-in for property C10 (labelled bounded; never counted as
// proved): every operation sequence up to the given length over a small
// alphabet is run against a DagModifier and against a byte-array file model
// with io.Seeker / io.Writer / io.WriterAt semantics; every observable result
// and the final DAG content must agree.

import (
	"bytes"
	"context"
	"fmt"
	"io"
	"os"
	"strconv"
	"testing"

	testu "github.com/ipfs/boxo/ipld/unixfs/test"
	uio "github.com/ipfs/boxo/ipld/unixfs/io"
)

type verifOp struct {
	kind   string
	n      int   // byte count
	off    int64 // offset
	whence int
}

func (o verifOp) String() string {
	switch o.kind {
	case "write", "read":
		return fmt.Sprintf("%s(%d)", o.kind, o.n)
	case "writeat":
		return fmt.Sprintf("writeat(%d@%d)", o.n, o.off)
	case "seek":
		return fmt.Sprintf("seek(%d,%d)", o.off, o.whence)
	case "truncate":
		return fmt.Sprintf("truncate(%d)", o.off)
	}
	return o.kind
}

// verifClass tags sequences that contain a Read followed by a Write with no
// Seek/WriteAt in between: the modifier keeps the position of the next Write
// separate from the offset a Read advances (a recorded known finding).
func verifClass(seq []verifOp) string {
	readSeen := false
	size := int64(7) // conservative: a seek that may fail (negative target) does not reset
	_ = size
	for _, o := range seq {
		switch o.kind {
		case "read":
			readSeen = true
		case "seek":
			if o.off >= 0 || o.whence == io.SeekStart {
				readSeen = false
			}
		case "writeat":
			readSeen = false
		case "write":
			if readSeen {
				return " [read-then-write]"
			}
		}
	}
	return ""
}

type verifModel struct {
	data []byte
	pos  int64
}

func (m *verifModel) writeAt(b []byte, off int64) {
	if need := off + int64(len(b)); need > int64(len(m.data)) {
		m.data = append(m.data, make([]byte, need-int64(len(m.data)))...)
	}
	copy(m.data[off:], b)
}

func verifRunSeq(t *testing.T, seq []verifOp, initial int) (ok bool) {
	ctx, cancel := context.WithCancel(context.Background())
	defer cancel()
	dserv := testu.GetDAGServ()
	init := make([]byte, initial)
	for i := range init {
		init[i] = byte('a' + i%26)
	}
	nd := testu.GetNode(t, dserv, init, testu.UseProtoBufLeaves)
	dm, err := NewDagModifier(ctx, nd, dserv, testu.SizeSplitterGen(4))
	if err != nil {
		t.Fatal(err)
	}
	m := &verifModel{data: append([]byte{}, init...)}
	fail := func(i int, format string, a ...any) bool {
		t.Errorf("VERIF-FAIL C10%s: initial=%d ops=%v step %d (%v): %s", verifClass(seq), initial, seq, i, seq[i], fmt.Sprintf(format, a...))
		return false
	}
	stamp := byte('A')
	for i, o := range seq {
		switch o.kind {
		case "write":
			b := bytes.Repeat([]byte{stamp}, o.n)
			stamp++
			n, err := dm.Write(b)
			if err != nil || n != len(b) {
				return fail(i, "Write -> %d, %v", n, err)
			}
			m.writeAt(b, m.pos)
			m.pos += int64(len(b))
		case "writeat":
			b := bytes.Repeat([]byte{stamp}, o.n)
			stamp++
			n, err := dm.WriteAt(b, o.off)
			if err != nil || n != len(b) {
				return fail(i, "WriteAt -> %d, %v", n, err)
			}
			m.writeAt(b, o.off)
			// the modifier documents WriteAt as "seek to offset, then write"
			m.pos = o.off + int64(len(b))
		case "seek":
			var want int64
			switch o.whence {
			case io.SeekStart:
				want = o.off
			case io.SeekCurrent:
				want = m.pos + o.off
			case io.SeekEnd:
				want = int64(len(m.data)) + o.off
			}
			got, err := dm.Seek(o.off, o.whence)
			if want < 0 {
				if err == nil {
					return fail(i, "Seek to negative position %d succeeded with %d", want, got)
				}
				continue
			}
			if err != nil || got != want {
				return fail(i, "Seek -> %d, %v; io.Seeker gives %d", got, err, want)
			}
			m.pos = want
			if want > int64(len(m.data)) {
				m.data = append(m.data, make([]byte, want-int64(len(m.data)))...)
			}
		case "read":
			buf := make([]byte, o.n)
			n, err := dm.CtxReadFull(ctx, buf)
			var want []byte
			if m.pos < int64(len(m.data)) {
				end := m.pos + int64(o.n)
				if end > int64(len(m.data)) {
					end = int64(len(m.data))
				}
				want = m.data[m.pos:end]
			}
			if n != len(want) || !bytes.Equal(buf[:n], want) {
				return fail(i, "read %q (err %v), model %q at pos %d of %q", buf[:n], err, want, m.pos, m.data)
			}
			m.pos += int64(n)
		case "truncate":
			if err := dm.Truncate(o.off); err != nil {
				return fail(i, "Truncate: %v", err)
			}
			if o.off <= int64(len(m.data)) {
				m.data = m.data[:o.off]
			} else {
				m.data = append(m.data, make([]byte, o.off-int64(len(m.data)))...)
			}
		case "sync":
			if err := dm.Sync(); err != nil {
				return fail(i, "Sync: %v", err)
			}
		}
		sz, err := dm.Size()
		if err != nil || sz != int64(len(m.data)) {
			return fail(i, "Size -> %d, %v; model %d (%q)", sz, err, len(m.data), m.data)
		}
	}
	out, err := dm.GetNode()
	if err != nil {
		t.Fatal(err)
	}
	rd, err := uio.NewDagReader(ctx, out, dserv)
	if err != nil {
		t.Fatal(err)
	}
	got, err := io.ReadAll(rd)
	if err != nil {
		t.Fatal(err)
	}
	if !bytes.Equal(got, m.data) {
		t.Errorf("VERIF-FAIL C10%s: initial=%d ops=%v: DAG reads back %q, model %q", verifClass(seq), initial, seq, got, m.data)
		return false
	}
	return true
}

func TestVerifBoundedC10Model(t *testing.T) {
	maxLen := 3
	if os.Getenv("VERIF_TIER") == "thorough" {
		maxLen = 4
	}
	if v := os.Getenv("VERIF_C10_LEN"); v != "" {
		maxLen, _ = strconv.Atoi(v)
	}
	alphabet := []verifOp{
		{kind: "write", n: 1}, {kind: "write", n: 5},
		{kind: "writeat", n: 1, off: 0}, {kind: "writeat", n: 3, off: 2}, {kind: "writeat", n: 2, off: 9}, {kind: "writeat", n: 6, off: 0},
		{kind: "seek", off: 0, whence: io.SeekStart}, {kind: "seek", off: 3, whence: io.SeekStart},
		{kind: "seek", off: 2, whence: io.SeekCurrent}, {kind: "seek", off: -1, whence: io.SeekCurrent},
		{kind: "seek", off: 0, whence: io.SeekEnd}, {kind: "seek", off: -2, whence: io.SeekEnd}, {kind: "seek", off: 3, whence: io.SeekEnd},
		{kind: "read", n: 2}, {kind: "read", n: 20},
		{kind: "truncate", off: 0}, {kind: "truncate", off: 1}, {kind: "truncate", off: 12},
		{kind: "sync"},
	}
	evals, failures := 0, 0
	maxFail := 12
	knownShown := false
	var rec func(seq []verifOp)
	rec = func(seq []verifOp) {
		if failures >= maxFail {
			return
		}
		if len(seq) > 0 {
			for _, initial := range []int{0, 7} {
				evals++
				if verifClass(seq) != "" {
					if knownShown {
						continue
					}
					if !verifRunSeq(t, seq, initial) {
						knownShown = true
						return
					}
					continue
				}
				if !verifRunSeq(t, seq, initial) {
					failures++
					return // extensions of a failing prefix are not informative
				}
			}
		}
		if len(seq) == maxLen {
			return
		}
		for _, o := range alphabet {
			rec(append(append([]verifOp{}, seq...), o))
		}
	}
	rec(nil)
	fmt.Printf("BOUNDED-STATS {\"evaluations\": %d, \"distinct\": %d}\n", evals, evals)
}
