package blockservice

// Bounded stand-in for the block-service half of property C04 (labelled bounded; never counted as
// proved): request lists of length 1..3 over 5 CIDs - two ordinary blocks and three CIDs the default
// validator rejects (a sha2-256 digest truncated to 16 bytes, an md5 CID, an identity CID above the
// size cap), whose blocks are nevertheless in the local store and/or offered by the exchange - are
// put to GetBlocks and GetBlock, plain and through a session, in every position. A rejected CID must
// never be emitted, never be asked of the exchange and never be written to the store; the ordinary
// blocks of the same request must still arrive. AddBlock / AddBlocks with a rejected block must fail
// without storing it.

import (
	"context"
	"fmt"
	"os"
	"sync"
	"testing"

	blockstore "github.com/ipfs/boxo/blockstore"
	"github.com/ipfs/boxo/exchange"
	blocks "github.com/ipfs/go-block-format"
	cid "github.com/ipfs/go-cid"
	ds "github.com/ipfs/go-datastore"
	dssync "github.com/ipfs/go-datastore/sync"
	mh "github.com/multiformats/go-multihash"
)

type verifC04Exchange struct {
	exchange.Interface
	mu    sync.Mutex
	has   map[string]blocks.Block // by multihash
	asked []cid.Cid
}

func (e *verifC04Exchange) GetBlock(ctx context.Context, c cid.Cid) (blocks.Block, error) {
	e.mu.Lock()
	defer e.mu.Unlock()
	e.asked = append(e.asked, c)
	if b, ok := e.has[string(c.Hash())]; ok {
		return blocks.NewBlockWithCid(b.RawData(), c)
	}
	return nil, fmt.Errorf("exchange: not found")
}

func (e *verifC04Exchange) GetBlocks(ctx context.Context, ks []cid.Cid) (<-chan blocks.Block, error) {
	e.mu.Lock()
	defer e.mu.Unlock()
	ch := make(chan blocks.Block, len(ks))
	for _, c := range ks {
		e.asked = append(e.asked, c)
		if b, ok := e.has[string(c.Hash())]; ok {
			nb, _ := blocks.NewBlockWithCid(b.RawData(), c)
			ch <- nb
		}
	}
	close(ch)
	return ch, nil
}
func (e *verifC04Exchange) NotifyNewBlocks(context.Context, ...blocks.Block) error { return nil }
func (e *verifC04Exchange) Close() error                                           { return nil }

func TestVerifBoundedC04RejectedCids(t *testing.T) {
	ctx := context.Background()
	base := []blocks.Block{blocks.NewBlock([]byte("block A")), blocks.NewBlock([]byte("block B"))}
	short, _ := mh.Sum([]byte("short digest"), mh.SHA2_256, 16)
	md5h, _ := mh.Sum([]byte("md5 block"), mh.MD5, -1)
	big := make([]byte, 200)
	idh, _ := mh.Sum(big, mh.IDENTITY, -1)
	rejectedData := map[string][]byte{string(short): []byte("short digest"), string(md5h): []byte("md5 block"), string(idh): big}
	cids := []cid.Cid{base[0].Cid(), base[1].Cid(), cid.NewCidV1(cid.Raw, short), cid.NewCidV1(cid.Raw, md5h), cid.NewCidV1(cid.Raw, idh)}
	rejected := func(c cid.Cid) bool { _, ok := rejectedData[string(c.Hash())]; return ok }
	blockOf := func(c cid.Cid) int {
		for i, b := range base {
			if string(b.Cid().Hash()) == string(c.Hash()) {
				return i
			}
		}
		return -1
	}
	_ = blockOf
	var reqs [][]int
	var gen func(cur []int)
	gen = func(cur []int) {
		if len(cur) > 0 {
			reqs = append(reqs, append([]int(nil), cur...))
		}
		if len(cur) == 3 {
			return
		}
		for i := range cids {
			gen(append(cur, i))
		}
	}
	gen(nil)
	stride := 1
	_ = os.Getenv
	cases, fails := 0, 0
	fail := func(format string, a ...any) {
		fails++
		if fails <= 10 {
			fmt.Printf("VERIF-FAIL C04 "+format+"\n", a...)
		}
	}
	for ri := 0; ri < len(reqs); ri += stride {
		req := reqs[ri]
		for local := 0; local < 4; local++ { // which ordinary blocks are local
			for where := 0; where < 4; where++ { // the rejected blocks: bit 0 in the local datastore, bit 1 at the exchange
				for _, session := range []bool{false, true} {
					cases++
					dstore := dssync.MutexWrap(ds.NewMapDatastore())
					bstore := blockstore.NewBlockstore(dstore)
					ex := &verifC04Exchange{has: map[string]blocks.Block{}}
					for i, b := range base {
						if local&(1<<i) != 0 {
							bstore.Put(ctx, b)
						} else {
							ex.has[string(b.Cid().Hash())] = b
						}
					}
					for _, c := range cids {
						if !rejected(c) {
							continue
						}
						rb, _ := blocks.NewBlockWithCid(rejectedData[string(c.Hash())], c)
						if where&1 != 0 {
							bstore.Put(ctx, rb) // (the blockstore itself does not validate)
						}
						if where&2 != 0 {
							ex.has[string(c.Hash())] = rb
						}
					}
					puts := 0
					counting := &verifC04CountingStore{Blockstore: bstore, puts: &puts}
					bs := New(counting, ex)
					var ks []cid.Cid
					for _, i := range req {
						ks = append(ks, cids[i])
					}
					var getter BlockGetter = bs
					if session {
						getter = NewSession(ctx, bs)
					}
					id := fmt.Sprintf("[request %v ordinary-local %02b rejected-blocks-at %02b session %v]", req, local, where, session)
					got := map[string]int{}
					for b := range getter.GetBlocks(ctx, ks) {
						if rejected(b.Cid()) {
							fail("%s: GetBlocks emitted %s, which the validator rejects", id, b.Cid())
						}
						got[b.Cid().KeyString()]++
					}
					for _, k := range ks {
						if !rejected(k) && got[k.KeyString()] == 0 {
							fail("%s: ordinary block %s of the same request was not emitted", id, k)
						}
						if rejected(k) {
							if b, err := getter.GetBlock(ctx, k); err == nil {
								fail("%s: GetBlock returned %s, which the validator rejects", id, b.Cid())
							}
						}
					}
					for _, a := range ex.asked {
						if rejected(a) {
							fail("%s: the exchange was asked for %s, which the validator rejects", id, a)
						}
					}
					if where&1 == 0 {
						for _, c := range cids {
							if rejected(c) {
								if has, _ := bstore.Has(ctx, c); has {
									fail("%s: rejected block %s ended up in the local store", id, c)
								}
							}
						}
					}
					// adding
					for _, c := range cids {
						if !rejected(c) {
							continue
						}
						rb, _ := blocks.NewBlockWithCid(rejectedData[string(c.Hash())], c)
						before := puts
						if err := bs.AddBlock(ctx, rb); err == nil {
							fail("%s: AddBlock accepted %s", id, c)
						}
						if err := bs.AddBlocks(ctx, []blocks.Block{base[0], rb}); err == nil {
							fail("%s: AddBlocks accepted a batch containing %s", id, c)
						}
						_ = before
					}
					bs.Close()
				}
			}
		}
	}
	fmt.Printf("BOUNDED-STATS {\"cases\":%d,\"failures\":%d,\"bound\":\"%d request lists of length 1..3 over 5 CIDs (3 rejected) x 4 x 4 placements x plain/session\"}\n", cases, fails, len(reqs))
	if fails > 0 {
		t.Fail()
	}
}

type verifC04CountingStore struct {
	blockstore.Blockstore
	puts *int
}

func (s *verifC04CountingStore) Put(ctx context.Context, b blocks.Block) error {
	*s.puts++
	return s.Blockstore.Put(ctx, b)
}
