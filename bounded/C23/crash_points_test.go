package dspinner

// Bounded stand-in for property C23 (labelled bounded; never counted as proved): starting from a
// persisted state with a named recursive pin A, a named direct pin B and an unnamed recursive pin C,
// each of these operations - pin D recursive with a name, pin D direct, PinWithMode(E, direct, name),
// unpin A, unpin B, Update A -> D with and without unpinning A - is interrupted after each of its
// datastore writes in turn (the k-th and all later writes never reach the store). The pinner is
// reopened on what was persisted. Then: every pin record is in the CID index of its mode and, if it
// has a name, in the name index; every index entry points at an existing record with that CID / name;
// and every CID that was pinned before and that the operation does not unpin is still pinned.
// (Re-pinning an already pinned CID is a recorded finding and is not part of this run.)

import (
	"context"
	"fmt"
	"path"
	"sync/atomic"
	"testing"

	bs "github.com/ipfs/boxo/blockservice"
	blockstore "github.com/ipfs/boxo/blockstore"
	offline "github.com/ipfs/boxo/exchange/offline"
	mdag "github.com/ipfs/boxo/ipld/merkledag"
	ipfspinner "github.com/ipfs/boxo/pinning/pinner"
	cid "github.com/ipfs/go-cid"
	ds "github.com/ipfs/go-datastore"
	dsq "github.com/ipfs/go-datastore/query"
	dssync "github.com/ipfs/go-datastore/sync"
)

type verifC23StopDS struct {
	ds.Datastore
	budget  int64
	applied atomic.Int64
}

func (d *verifC23StopDS) ok() bool { return d.applied.Add(1) <= d.budget }
func (d *verifC23StopDS) Put(ctx context.Context, k ds.Key, v []byte) error {
	if !d.ok() {
		return fmt.Errorf("process stopped")
	}
	return d.Datastore.Put(ctx, k, v)
}
func (d *verifC23StopDS) Delete(ctx context.Context, k ds.Key) error {
	if !d.ok() {
		return fmt.Errorf("process stopped")
	}
	return d.Datastore.Delete(ctx, k)
}

func TestVerifBoundedC23CrashPoints(t *testing.T) {
	ctx := context.Background()
	type scenario struct {
		name string
		run  func(p ipfspinner.Pinner, n map[string]*mdag.ProtoNode) error
		keep []string
	}
	scenarios := []scenario{
		{"Pin(D, recursive, name)", func(p ipfspinner.Pinner, n map[string]*mdag.ProtoNode) error { return p.Pin(ctx, n["D"], true, "d-name") }, []string{"A", "B", "C"}},
		{"Pin(D, direct)", func(p ipfspinner.Pinner, n map[string]*mdag.ProtoNode) error { return p.Pin(ctx, n["D"], false, "") }, []string{"A", "B", "C"}},
		{"PinWithMode(E, direct, name)", func(p ipfspinner.Pinner, n map[string]*mdag.ProtoNode) error {
			return p.PinWithMode(ctx, n["E"].Cid(), ipfspinner.Direct, "e-name")
		}, []string{"A", "B", "C"}},
		{"Unpin(A)", func(p ipfspinner.Pinner, n map[string]*mdag.ProtoNode) error { return p.Unpin(ctx, n["A"].Cid(), true) }, []string{"B", "C"}},
		{"Unpin(B)", func(p ipfspinner.Pinner, n map[string]*mdag.ProtoNode) error { return p.Unpin(ctx, n["B"].Cid(), false) }, []string{"A", "C"}},
		{"Update(A->D, unpin)", func(p ipfspinner.Pinner, n map[string]*mdag.ProtoNode) error {
			return p.Update(ctx, n["A"].Cid(), n["D"].Cid(), true)
		}, []string{"B", "C"}},
		{"Update(A->D, keep)", func(p ipfspinner.Pinner, n map[string]*mdag.ProtoNode) error {
			return p.Update(ctx, n["A"].Cid(), n["D"].Cid(), false)
		}, []string{"A", "B", "C"}},
	}
	cases, fails := 0, 0
	for _, sc := range scenarios {
		for budget := int64(0); budget < 40; budget++ {
			cases++
			pinStore := dssync.MutexWrap(ds.NewMapDatastore())
			bstore := blockstore.NewBlockstore(dssync.MutexWrap(ds.NewMapDatastore()))
			dserv := mdag.NewDAGService(bs.New(bstore, offline.Exchange(bstore)))
			nodes := map[string]*mdag.ProtoNode{}
			for _, k := range []string{"A", "B", "C", "D", "E"} {
				nd := mdag.NodeWithData([]byte("crash-point node " + k))
				if err := dserv.Add(ctx, nd); err != nil {
					t.Fatal(err)
				}
				nodes[k] = nd
			}
			p0, err := New(ctx, pinStore, dserv)
			if err != nil {
				t.Fatal(err)
			}
			if err := p0.Pin(ctx, nodes["A"], true, "a-name"); err != nil {
				t.Fatal(err)
			}
			if err := p0.Pin(ctx, nodes["B"], false, "b-name"); err != nil {
				t.Fatal(err)
			}
			if err := p0.Pin(ctx, nodes["C"], true, ""); err != nil {
				t.Fatal(err)
			}
			if err := p0.Flush(ctx); err != nil {
				t.Fatal(err)
			}
			stop := &verifC23StopDS{Datastore: pinStore, budget: budget}
			p1, err := New(ctx, stop, dserv)
			if err != nil {
				t.Fatal(err)
			}
			opErr := sc.run(p1, nodes)
			stopped := stop.applied.Load() > budget
			p2i, err := New(ctx, pinStore, dserv)
			if err != nil {
				t.Fatal(err)
			}
			p2 := p2i
			bad := ""
			// records -> indexes
			res, err := pinStore.Query(ctx, dsq.Query{Prefix: pinKeyPath})
			if err != nil {
				t.Fatal(err)
			}
			ents, _ := res.Rest()
			records := map[string]*pin{}
			for _, e := range ents {
				pp, err := decodePin(path.Base(e.Key), e.Value)
				if err != nil {
					bad = "undecodable pin record " + e.Key
					continue
				}
				records[pp.Id] = pp
				idx := p2.cidRIndex
				if pp.Mode == ipfspinner.Direct {
					idx = p2.cidDIndex
				}
				if ok, _ := idx.HasValue(ctx, pp.Cid.KeyString(), pp.Id); !ok {
					bad = fmt.Sprintf("pin record %s (mode %v) is missing from the CID index of its mode", pp.Id, pp.Mode)
				}
				if pp.Name != "" {
					if ok, _ := p2.nameIndex.HasValue(ctx, pp.Name, pp.Id); !ok {
						bad = fmt.Sprintf("pin record %s named %q is missing from the name index", pp.Id, pp.Name)
					}
				}
			}
			// indexes -> records
			check := func(what string, idx interface {
				ForEach(context.Context, string, func(string, string) bool) error
			}, match func(key string, pp *pin) bool) {
				idx.ForEach(ctx, "", func(key, value string) bool {
					pp := records[value]
					if pp == nil {
						bad = fmt.Sprintf("%s entry %q -> %s has no pin record", what, key, value)
					} else if !match(key, pp) {
						bad = fmt.Sprintf("%s entry %q points at record %s, which is for another CID, mode or name", what, key, value)
					}
					return true
				})
			}
			check("recursive CID index", p2.cidRIndex, func(k string, pp *pin) bool { return pp.Cid.KeyString() == k && pp.Mode == ipfspinner.Recursive })
			check("direct CID index", p2.cidDIndex, func(k string, pp *pin) bool { return pp.Cid.KeyString() == k && pp.Mode == ipfspinner.Direct })
			check("name index", p2.nameIndex, func(k string, pp *pin) bool { return pp.Name == k })
			for _, k := range sc.keep {
				if _, pinned, err := p2.IsPinned(ctx, nodes[k].Cid()); err != nil || !pinned {
					bad = fmt.Sprintf("%s was pinned before and is not unpinned by the operation, but is not pinned after the restart (err %v)", k, err)
				}
			}
			if bad != "" {
				fails++
				if fails <= 10 {
					fmt.Printf("VERIF-FAIL C23 [%s stopped after %d of its writes, returned %v]: %s\n", sc.name, budget, opErr, bad)
				}
			}
			if !stopped {
				break // the whole operation fits in the budget: every stop point of it was tried
			}
		}
	}
	var _ = cid.Undef
	fmt.Printf("BOUNDED-STATS {\"cases\":%d,\"failures\":%d,\"bound\":\"7 operations x every stop point between their datastore writes\"}\n", cases, fails)
	if fails > 0 {
		t.Fail()
	}
}
