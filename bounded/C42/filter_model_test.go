package filters

// Bounded stand-in for property C42 (labelled bounded; never counted as proved):
// every combination of a protocol filter out of 8 and an address filter out of 12 is applied
// through ApplyFiltersToIter to every ordered list of up to 3 peer records drawn from 6
// records (different protocol lists, address lists over tcp / udp+quic-v1 / webtransport /
// p2p-circuit, no addresses, no protocols). The kept records, their order and their
// filtered address lists must equal a model written from the IPIP-484 text:
//   protocols: no filter keeps everything; otherwise keep iff some filter value equals
//   (case-insensitively) one of the peer's protocols, or is "unknown" and the peer has none;
//   addresses: keep an address iff it has no protocol named by a negative (!x) filter and, if
//   there are positive filters, at least one of them; a record left without addresses is
//   dropped unless it had none to begin with and "unknown" is in the filter.

import (
	"fmt"
	"strings"
	"testing"

	"github.com/ipfs/boxo/routing/http/types"
	"github.com/ipfs/boxo/routing/http/types/iter"
	"github.com/libp2p/go-libp2p/core/peer"
	"github.com/multiformats/go-multiaddr"
)

func verifC42Model(protocols []string, addrs []string, fa, fp []string) (keep bool, kept []string) {
	if len(fp) > 0 {
		ok := false
		for _, f := range fp {
			if f == "unknown" && len(protocols) == 0 {
				ok = true
			}
			for _, p := range protocols {
				if strings.EqualFold(p, f) {
					ok = true
				}
			}
		}
		if !ok {
			return false, nil
		}
	}
	if len(fa) == 0 {
		return true, addrs
	}
	unknown := false
	var pos, neg []string
	for _, f := range fa {
		switch {
		case f == "unknown":
			unknown = true
			pos = append(pos, f)
		case strings.HasPrefix(f, "!"):
			neg = append(neg, f[1:])
		default:
			pos = append(pos, f)
		}
	}
	if len(addrs) == 0 {
		return unknown, nil
	}
	has := func(a, proto string) bool {
		for _, part := range strings.Split(a, "/") {
			if part == proto {
				return true
			}
		}
		return false
	}
	for _, a := range addrs {
		excluded := false
		for _, n := range neg {
			if has(a, n) {
				excluded = true
			}
		}
		if excluded {
			continue
		}
		if len(pos) == 0 {
			kept = append(kept, a)
			continue
		}
		for _, p := range pos {
			if has(a, p) {
				kept = append(kept, a)
				break
			}
		}
	}
	return len(kept) > 0, kept
}

func TestVerifBoundedC42FilterModel(t *testing.T) {
	pid, err := peer.Decode("12D3KooWM8sovaEGU1bmiWGWAzvs47DEcXKZZTuJnpQyVTkRs2Vn")
	if err != nil {
		t.Fatal(err)
	}
	type rec struct {
		protocols []string
		addrs     []string
	}
	recs := []rec{
		{[]string{"transport-bitswap"}, []string{"/ip4/1.2.3.4/tcp/4001", "/ip4/1.2.3.4/udp/4001/quic-v1"}},
		{[]string{"transport-ipfs-gateway-http", "Transport-Bitswap"}, []string{"/ip4/1.2.3.4/udp/4001/quic-v1/webtransport"}},
		{nil, []string{"/ip4/1.2.3.4/tcp/4001/p2p/12D3KooWM8sovaEGU1bmiWGWAzvs47DEcXKZZTuJnpQyVTkRs2Vn/p2p-circuit"}},
		{[]string{"transport-graphsync-filecoinv1"}, nil},
		{nil, nil},
		{[]string{"transport-bitswap"}, []string{"/dns4/example.com/tcp/443/tls/http", "/ip4/1.2.3.4/tcp/4001"}},
	}
	protoFilters := [][]string{nil, {"transport-bitswap"}, {"unknown"}, {"transport-bitswap", "unknown"}, {"transport-ipfs-gateway-http"}, {"TRANSPORT-BITSWAP"}, {"nothing"}, {"transport-graphsync-filecoinv1", "transport-ipfs-gateway-http"}}
	addrFilters := [][]string{nil, {"tcp"}, {"!tcp"}, {"quic-v1"}, {"unknown"}, {"tcp", "unknown"}, {"!p2p-circuit"}, {"webtransport", "!quic-v1"}, {"tcp", "!p2p-circuit"}, {"http"}, {"!tcp", "unknown"}, {"udp", "tcp"}}
	var lists [][]int
	lists = append(lists, nil)
	for a := range recs {
		lists = append(lists, []int{a})
		for b := range recs {
			lists = append(lists, []int{a, b})
			for c := range recs {
				if (a+b+c)%3 == 0 {
					lists = append(lists, []int{a, b, c})
				}
			}
		}
	}
	cases, fails := 0, 0
	for _, fp := range protoFilters {
		for _, fa := range addrFilters {
			for _, l := range lists {
				cases++
				var in []iter.Result[types.Record]
				var want []string
				for _, ri := range l {
					r := recs[ri]
					pr := &types.PeerRecord{Schema: types.SchemaPeer, ID: &pid, Protocols: append([]string(nil), r.protocols...)}
					for _, a := range r.addrs {
						ma, err := multiaddr.NewMultiaddr(a)
						if err != nil {
							t.Fatal(err)
						}
						pr.Addrs = append(pr.Addrs, types.Multiaddr{Multiaddr: ma})
					}
					in = append(in, iter.Result[types.Record]{Val: pr})
					if keep, kept := verifC42Model(r.protocols, r.addrs, fa, fp); keep {
						want = append(want, fmt.Sprintf("%v|%v", r.protocols, kept))
					}
				}
				out := ApplyFiltersToIter(iter.FromSlice(in), fa, fp)
				var got []string
				var collected []*types.PeerRecord
				for out.Next() {
					v := out.Val()
					if v.Err != nil {
						got = append(got, "ERR:"+v.Err.Error())
						continue
					}
					pr := v.Val.(*types.PeerRecord)
					collected = append(collected, pr)
					var as []string
					for _, a := range pr.Addrs {
						as = append(as, a.String())
					}
					got = append(got, fmt.Sprintf("%v|%v", pr.Protocols, as))
				}
				// a consumer that collects the records (a JSON response) reads them after the
				// iterator is exhausted: each must still hold its own filtered addresses
				var late []string
				for _, pr := range collected {
					var as []string
					for _, a := range pr.Addrs {
						as = append(as, a.String())
					}
					late = append(late, fmt.Sprintf("%v|%v", pr.Protocols, as))
				}
				if len(collected) == len(got) && fmt.Sprint(late) != fmt.Sprint(got) {
					fails++
					if fails <= 10 {
						fmt.Printf("VERIF-FAIL C42 filter-protocols=%v filter-addrs=%v records=%v: records changed after they were handed out:\n  when produced  %v\n  once collected %v\n", fp, fa, l, got, late)
					}
				}
				if fmt.Sprint(got) != fmt.Sprint(want) {
					fails++
					if fails <= 10 {
						fmt.Printf("VERIF-FAIL C42 filter-protocols=%v filter-addrs=%v records=%v:\n  got  %v\n  want %v\n", fp, fa, l, got, want)
					}
				}
			}
		}
	}
	fmt.Printf("BOUNDED-STATS {\"cases\":%d,\"failures\":%d,\"bound\":\"8 protocol filters x 12 address filters x %d record lists of length 0..3 over 6 records\"}\n", cases, fails, len(lists))
	if fails > 0 {
		t.Fail()
	}
}
