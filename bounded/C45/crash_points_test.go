package autoconf

// Bounded stand-in for property C45 (labelled bounded; never counted as proved): a cache update
// writes two files, the new configuration version and the refresh time stamp. For 0, 1 and 2
// earlier complete versions in the cache, for every truncation point of the new configuration
// file (including "not created" and "complete"), and for every state the time-stamp file can be
// left in (absent, empty, cut after each of its bytes, complete, unreadable garbage), GetCached
// must return the newest configuration that is intact - the new one once it is complete, else the
// newest earlier one - and the built-in fallback only when no intact version exists; never nil,
// never a half-read configuration.

import (
	"encoding/json"
	"fmt"
	"os"
	"path/filepath"
	"testing"
	"time"
)

func TestVerifBoundedC45CrashPoints(t *testing.T) {
	fallback := &Config{AutoConfVersion: 1}
	versions := []*Config{{AutoConfVersion: 2025010101, AutoConfSchema: 1}, {AutoConfVersion: 2025020202, AutoConfSchema: 1}}
	newer := &Config{AutoConfVersion: 2025030303, AutoConfSchema: 1}
	nb, _ := json.Marshal(newer)
	stamp := []byte(fmt.Sprintf("%d", time.Now().Unix()))
	var stamps [][]byte
	stamps = append(stamps, nil) // absent
	for cut := 0; cut <= len(stamp); cut++ {
		stamps = append(stamps, append([]byte{}, stamp[:cut]...))
	}
	stamps = append(stamps, []byte("not a time stamp\x00"))
	cases, fails := 0, 0
	for earlier := 0; earlier <= 2; earlier++ {
		for cut := -1; cut <= len(nb); cut++ {
			for si, st := range stamps {
				cases++
				dir := t.TempDir()
				c, err := NewClient(WithCacheDir(dir), WithURL("http://127.0.0.1:1/autoconf.json"), WithFallback(func() *Config { return fallback }))
				if err != nil {
					t.Fatal(err)
				}
				cacheDir, err := c.getCacheDir()
				if err != nil {
					t.Fatal(err)
				}
				if err := os.MkdirAll(cacheDir, 0o755); err != nil {
					t.Fatal(err)
				}
				want := fallback.AutoConfVersion
				for i := 0; i < earlier; i++ {
					b, _ := json.Marshal(versions[i])
					if err := os.WriteFile(filepath.Join(cacheDir, fmt.Sprintf("autoconf-%d.json", 1000+i)), b, 0o600); err != nil {
						t.Fatal(err)
					}
					want = versions[i].AutoConfVersion
				}
				if cut >= 0 {
					if err := os.WriteFile(filepath.Join(cacheDir, "autoconf-2000.json"), nb[:cut], 0o600); err != nil {
						t.Fatal(err)
					}
					if cut == len(nb) {
						want = newer.AutoConfVersion
					}
				}
				if si > 0 {
					if err := os.WriteFile(filepath.Join(cacheDir, lastRefreshFile), st, 0o600); err != nil {
						t.Fatal(err)
					}
				}
				got := c.GetCached()
				if got == nil || got.AutoConfVersion != want {
					fails++
					if fails <= 10 {
						v := int64(-1)
						if got != nil {
							v = got.AutoConfVersion
						}
						fmt.Printf("VERIF-FAIL C45 [%d earlier versions, new file cut at %d of %d, time stamp %q (state %d)]: GetCached returned version %d, the newest intact cached version is %d (fallback is %d)\n",
							earlier, cut, len(nb), st, si, v, want, fallback.AutoConfVersion)
					}
				}
			}
		}
	}
	fmt.Printf("BOUNDED-STATS {\"cases\":%d,\"failures\":%d,\"bound\":\"0..2 earlier versions x every truncation point of the new configuration file x %d states of the time-stamp file\"}\n", cases, fails, len(stamps))
	if fails > 0 {
		t.Fail()
	}
}
