package io

// Bounded stand-in for the order-independence part of property C16 (labelled bounded; never
// counted as proved): for a fixed configuration (fanout 8, per-directory sharding threshold,
// estimation mode, optional max links), every permutation of 6 edits that lead to the same
// final entry set - including adds of entries that are removed again and replacements - must
// give the root CID of a directory built directly from the final set; checked for the
// automatically switching directory (thresholds that keep it basic, make it switch to HAMT and
// back) and for a pure HAMT directory.

import (
	"context"
	"fmt"
	"os"
	"testing"

	mdag "github.com/ipfs/boxo/ipld/merkledag"
	mdtest "github.com/ipfs/boxo/ipld/merkledag/test"
	ft "github.com/ipfs/boxo/ipld/unixfs"
	ipld "github.com/ipfs/go-ipld-format"
)

func TestVerifBoundedC16OrderIndependence(t *testing.T) {
	ctx := context.Background()
	type edit struct {
		add  bool
		name string
		val  int
	}
	long := "a-rather-long-entry-name-to-move-the-size-estimate-"
	// the final set is {x=0, long1=1, long2=0, z=1}; "tmp" and long3 come and go, x is replaced
	edits := []edit{{true, "x", 1}, {true, long + "1", 1}, {true, long + "2", 0}, {true, "z", 1}, {true, "tmp", 0}, {true, long + "3", 0}}
	finish := []edit{{true, "x", 0}, {false, "tmp", 0}, {false, long + "3", 0}}
	final := map[string]int{"x": 0, long + "1": 1, long + "2": 0, "z": 1}
	var perms [][]int
	var gen func(cur []int, used int)
	gen = func(cur []int, used int) {
		if len(cur) == len(edits) {
			perms = append(perms, append([]int(nil), cur...))
			return
		}
		for i := range edits {
			if used&(1<<i) == 0 {
				gen(append(cur, i), used|1<<i)
			}
		}
	}
	gen(nil, 0)
	stride := 11
	if os.Getenv("VERIF_TIER") == "thorough" {
		stride = 1
	}
	type cfg struct {
		kind      string
		threshold int
		mode      SizeEstimationMode
		maxLinks  int
	}
	// "hamt-reloaded": a pure HAMT that is written out and loaded again from its root node after
	// every edit, so that removals meet child shards and entries that have never been read
	cfgs := []cfg{{"hamt", 0, SizeEstimationLinks, 0}, {"hamt-reloaded", 0, SizeEstimationLinks, 0}, {"dynamic", 1 << 20, SizeEstimationLinks, 0}}
	// thresholds swept across every basic/HAMT boundary the 6 entries can reach (entries are 35..90 bytes each)
	for th := 60; th <= 460; th += 5 {
		for _, m := range []SizeEstimationMode{SizeEstimationLinks, SizeEstimationBlock} {
			cfgs = append(cfgs, cfg{"dynamic", th, m, 0})
			if th%20 == 0 {
				cfgs = append(cfgs, cfg{"dynamic", th, m, 4})
			}
		}
	}
	for _, ml := range []int{0, 3, 4, 5} {
		cfgs = append(cfgs, cfg{"dynamic", 1 << 20, SizeEstimationDisabled, ml}, cfg{"dynamic", 1 << 20, SizeEstimationLinks, ml})
	}
	cases, fails := 0, 0
	for ci, c := range cfgs {
		build := func(ds ipld.DAGService) (Directory, error) {
			if c.kind == "hamt" || c.kind == "hamt-reloaded" {
				return NewHAMTDirectory(ds, 0, WithMaxHAMTFanout(8))
			}
			opts := []DirectoryOption{WithMaxHAMTFanout(8), WithSizeEstimationMode(c.mode)}
			if c.maxLinks > 0 {
				opts = append(opts, WithMaxLinks(c.maxLinks))
			}
			d, err := NewDirectory(ds, opts...)
			if err == nil {
				d.(*DynamicDirectory).Directory.(*BasicDirectory).SetHAMTShardingSize(c.threshold)
			}
			return d, err
		}
		ds := mdtest.Mock()
		vals := []ipld.Node{ft.EmptyDirNode(), mdag.NodeWithData(ft.FilePBData([]byte("x"), 1))}
		for _, v := range vals {
			ds.Add(ctx, v)
		}
		ref, err := build(ds)
		if err != nil {
			t.Fatal(err)
		}
		for _, n := range []string{"x", long + "1", long + "2", "z"} {
			if err := ref.AddChild(ctx, n, vals[final[n]]); err != nil {
				t.Fatal(err)
			}
		}
		refNode, err := ref.GetNode()
		if err != nil {
			t.Fatal(err)
		}
		for pi := 0; pi < len(perms); pi += stride {
			cases++
			d, err := build(ds)
			if err != nil {
				t.Fatal(err)
			}
			var trace []string
			bad := ""
			apply := func(e edit) {
				if bad != "" {
					return
				}
				var err error
				if e.add {
					err = d.AddChild(ctx, e.name, vals[e.val])
				} else {
					err = d.RemoveChild(ctx, e.name)
				}
				trace = append(trace, fmt.Sprintf("%v:%.8s", e.add, e.name))
				if err != nil {
					bad = err.Error()
				}
				if bad == "" && c.kind == "hamt-reloaded" {
					nd, err := d.GetNode()
					if err == nil {
						err = ds.Add(ctx, nd)
					}
					if err == nil {
						d, err = NewHAMTDirectoryFromNode(ds, nd)
					}
					if err != nil {
						bad = "reload: " + err.Error()
					}
				}
			}
			for _, i := range perms[pi] {
				apply(edits[i])
			}
			for _, e := range finish {
				apply(e)
			}
			if bad == "" {
				nd, err := d.GetNode()
				if err != nil {
					bad = err.Error()
				} else if !nd.Cid().Equals(refNode.Cid()) {
					_, gotHamt := d.(*DynamicDirectory)
					kind := fmt.Sprintf("%T", d)
					if gotHamt {
						kind = fmt.Sprintf("%T", d.(*DynamicDirectory).Directory)
					}
					bad = fmt.Sprintf("root %s (a %s) differs from the root %s of a directory built from the final entries", nd.Cid(), kind, refNode.Cid())
				}
			}
			if bad != "" {
				fails++
				if fails <= 8 {
					fmt.Printf("VERIF-FAIL C16 [config %d %+v order %v]: %s\n", ci, c, trace, bad)
				}
			}
		}
	}
	fmt.Printf("BOUNDED-STATS {\"cases\":%d,\"failures\":%d,\"bound\":\"%d configurations (thresholds 60..460 step 5 in links and block mode, with and without max links; estimation disabled; pure HAMT) x every %d-th of the 720 orders of 6 edits followed by 3 finishing edits\"}\n", cases, fails, len(cfgs), stride)
	if fails > 0 {
		t.Fail()
	}
}
