package io

// Bounded stand-in / replay harness for property C17 (labelled bounded; never
// counted as proved). It compares the arithmetic size functions and the
// running estimate of BasicDirectory with the bytes the real dag-pb encoder
// produces, i.e. it also exercises the dependency contract the proofs assume
// ("go-codec-dagpb emits the wire format the spec functions describe").
//
// Scope: every varint length boundary 2^k-1, 2^k, 2^k+1 (k=0..64) plus the
// solver's counterexample (GOVC_MODEL) when replaying; directories built from
// all operation sequences of length <= 3 over {add, replace, remove} x names
// {"a", 127 bytes, 128 bytes} x Tsize classes x modes/mtimes below.

import (
	"context"
	"fmt"
	"os"
	"regexp"
	"strconv"
	"strings"
	"testing"
	"time"

	mdag "github.com/ipfs/boxo/ipld/merkledag"
	mdtest "github.com/ipfs/boxo/ipld/merkledag/test"
	cid "github.com/ipfs/go-cid"
	ipld "github.com/ipfs/go-ipld-format"
	"google.golang.org/protobuf/encoding/protowire"
)

func verifModelUint(name string) (uint64, bool) {
	m := os.Getenv("GOVC_MODEL")
	re := regexp.MustCompile(`\(` + regexp.QuoteMeta(name) + `\s+#([xb])([0-9a-fA-F]+)\)`)
	sm := re.FindStringSubmatch(m)
	if sm == nil {
		return 0, false
	}
	base := 16
	if sm[1] == "b" {
		base = 2
	}
	v, err := strconv.ParseUint(sm[2], base, 64)
	return v, err == nil
}

func verifVarintValues() []uint64 {
	var vs []uint64
	for k := 0; k < 64; k++ {
		p := uint64(1) << uint(k)
		vs = append(vs, p-1, p, p+1)
	}
	vs = append(vs, ^uint64(0), ^uint64(0)-1)
	if v, ok := verifModelUint("p_v"); ok {
		vs = append(vs, v)
	}
	if v, ok := verifModelUint("p_tsize"); ok {
		vs = append(vs, v)
	}
	return vs
}

func TestVerifBoundedC17Varint(t *testing.T) {
	n := 0
	for _, v := range verifVarintValues() {
		n++
		if got, want := varintLen(v), len(protowire.AppendVarint(nil, v)); got != want {
			t.Errorf("VERIF-FAIL C17: varintLen(%#x) = %d, protobuf encodes it in %d bytes", v, got, want)
		}
	}
	fmt.Printf("BOUNDED-STATS {\"evaluations\": %d, \"distinct\": %d}\n", n, n)
}

func verifExact(t *testing.T, d *BasicDirectory, what string) bool {
	nd, err := d.GetNode()
	if err != nil {
		t.Fatal(err)
	}
	raw := nd.(*mdag.ProtoNode).RawData()
	if d.estimatedSize != len(raw) {
		t.Errorf("VERIF-FAIL C17: after %s estimate=%d serialized=%d", what, d.estimatedSize, len(raw))
		return false
	}
	return true
}

func TestVerifBoundedC17Directory(t *testing.T) {
	ctx := context.Background()
	ds := mdtest.Mock()
	c1, _ := cid.Decode("QmYwAPJzv5CZsnA625s3Xf2nemtYgPpHdWEz79ojWnPbdG")
	c2, _ := cid.Decode("bafybeigdyrzt5sfp7udm7hu76uh7y26nf3efuylqabf3oclgtqy55fbzdi")
	names := []string{"a", strings.Repeat("n", 127), strings.Repeat("m", 128)}
	tsizes := verifVarintValues()
	// keep Tsize within what checkLink accepts
	var ts []uint64
	for _, v := range tsizes {
		if v <= 1<<63-1 {
			ts = append(ts, v)
		}
	}
	modes := []os.FileMode{0, 0o644, 0o755, os.ModeSticky, os.ModeSetgid | 0o070, os.ModeSetuid | 0o755, os.ModeSticky | 0o055, os.ModeSetuid | os.ModeSetgid | os.ModeSticky | 0o777}
	mtimes := []time.Time{{}, time.Unix(0, 0), time.Unix(1, 1), time.Unix(1<<40, 999999999), time.Unix(-5, 0), time.Unix(-5, 500), time.Unix(127, 0), time.Unix(128, 0)}
	evals, distinct := 0, 0
	// 1. data field: every mode x mtime
	for _, m := range modes {
		for _, mt := range mtimes {
			d, err := NewBasicDirectory(ds, WithSizeEstimationMode(SizeEstimationBlock), WithStat(m, mt))
			if err != nil {
				t.Fatal(err)
			}
			evals++
			distinct++
			verifExact(t, d, fmt.Sprintf("create mode=%o mtime=%v", m, mt))
		}
	}
	// 2. single link: every Tsize boundary x name x cid
	for _, name := range names {
		for _, c := range []cid.Cid{c1, c2} {
			for _, tsz := range ts {
				d, _ := NewBasicDirectory(ds, WithSizeEstimationMode(SizeEstimationBlock))
				if err := d.addLinkChild(ctx, name, &ipld.Link{Cid: c, Size: tsz}); err != nil {
					t.Fatal(err)
				}
				evals++
				distinct++
				if !verifExact(t, d, fmt.Sprintf("add name(len %d) tsize=%#x", len(name), tsz)) {
					return
				}
			}
		}
	}
	// 3. operation sequences
	type op struct {
		kind string
		name string
		c    cid.Cid
		ts   uint64
	}
	var alphabet []op
	for _, name := range []string{"a", strings.Repeat("m", 128)} {
		for _, tsz := range []uint64{4, 20000, 1 << 48} {
			alphabet = append(alphabet, op{"add", name, c1, tsz}, op{"add", name, c2, tsz})
		}
		alphabet = append(alphabet, op{"rm", name, c1, 0})
	}
	var rec func(seq []op)
	rec = func(seq []op) {
		if len(seq) > 0 {
			d, _ := NewBasicDirectory(ds, WithSizeEstimationMode(SizeEstimationBlock), WithStat(os.ModeSticky|0o055, time.Unix(-5, 500)))
			desc := ""
			for _, o := range seq {
				switch o.kind {
				case "add":
					if err := d.addLinkChild(ctx, o.name, &ipld.Link{Cid: o.c, Size: o.ts}); err != nil {
						t.Fatal(err)
					}
				case "rm":
					_ = d.RemoveChild(ctx, o.name)
				}
				desc += fmt.Sprintf("%s(%d,%v,%d) ", o.kind, len(o.name), o.c.Version(), o.ts)
				evals++
				if !verifExact(t, d, desc) {
					return
				}
			}
			distinct++
		}
		if len(seq) == 3 || t.Failed() {
			return
		}
		for _, o := range alphabet {
			rec(append(append([]op{}, seq...), o))
		}
	}
	rec(nil)
	fmt.Printf("BOUNDED-STATS {\"evaluations\": %d, \"distinct\": %d}\n", evals, distinct)
}
