package dspinner

// Bounded stand-in for property C22 (labelled bounded; never counted as proved):
// over the DAG A -> {B, C}, B -> {D} and a standalone node E, every sequence of 3 operations
// (thorough: 4, sampled) out of recursive/direct pins with names, explicit-mode pins (incl. an
// invalid mode), unpins (recursive flag on/off) and updates is run against the pinner and
// against a pin model: recursive supersedes direct, indirect means reachable from a recursive
// root but not itself pinned, re-pinning replaces the name, and an operation that returns an
// error leaves every query unchanged. After every step IsPinned, IsPinnedWithType (recursive,
// direct), CheckIfPinnedWithType(Any, with names) for all nodes, and the detailed listings of
// direct and recursive pins are compared with the model.

import (
	"context"
	"fmt"
	"os"
	"sort"
	"testing"

	mdag "github.com/ipfs/boxo/ipld/merkledag"
	ipfspin "github.com/ipfs/boxo/pinning/pinner"
	cid "github.com/ipfs/go-cid"
)

func TestVerifBoundedC22PinModel(t *testing.T) {
	ctx := context.Background()
	mkNode := func(data string, kids ...*mdag.ProtoNode) *mdag.ProtoNode {
		n := mdag.NodeWithData([]byte(data))
		for i, k := range kids {
			if err := n.AddNodeLink(fmt.Sprintf("l%d", i), k); err != nil {
				t.Fatal(err)
			}
		}
		return n
	}
	d := mkNode("D")
	c := mkNode("C")
	b := mkNode("B", d)
	a := mkNode("A", b, c)
	e := mkNode("E")
	nodes := []*mdag.ProtoNode{a, b, c, d, e}
	names := []string{"A", "B", "C", "D", "E"}
	children := map[int][]int{0: {1, 2}, 1: {3}}
	type op struct {
		kind string
		n, m int
		name string
		flag bool
	}
	var ops []op
	for _, i := range []int{0, 1, 3, 4} {
		ops = append(ops, op{kind: "pinrec", n: i, name: "r" + names[i]}, op{kind: "pindir", n: i, name: ""}, op{kind: "pindir", n: i, name: "d" + names[i]},
			op{kind: "unpin", n: i, flag: true}, op{kind: "unpin", n: i, flag: false})
	}
	ops = append(ops, op{kind: "pinrec", n: 0, name: "again"}, op{kind: "mode-rec", n: 1, name: "m"}, op{kind: "mode-dir", n: 1, name: "m2"}, op{kind: "mode-bad", n: 1},
		op{kind: "update", n: 0, m: 1, flag: true}, op{kind: "update", n: 0, m: 4, flag: false}, op{kind: "update", n: 1, m: 1, flag: true}, op{kind: "update", n: 4, m: 0, flag: true})
	seqLen, stride := 3, 4
	if os.Getenv("VERIF_TIER") == "thorough" {
		seqLen, stride = 4, 17
	}
	total := 1
	for i := 0; i < seqLen; i++ {
		total *= len(ops)
	}
	cases, fails := 0, 0
	for idx := 0; idx < total; idx += stride {
		cases++
		dstore, dserv := makeStore()
		for _, n := range nodes {
			if err := dserv.Add(ctx, n); err != nil {
				t.Fatal(err)
			}
		}
		p, err := New(ctx, dstore, dserv)
		if err != nil {
			t.Fatal(err)
		}
		rec := map[int]string{}
		dir := map[int]string{}
		var trace []string
		bad := ""
		for step, k := 0, idx; step < seqLen && bad == ""; step++ {
			o := ops[k%len(ops)]
			k /= len(ops)
			trace = append(trace, fmt.Sprintf("%s(%s,%s,%q,%v)", o.kind, names[o.n], names[o.m], o.name, o.flag))
			var opErr error
			wantErr := false
			switch o.kind {
			case "pinrec", "mode-rec":
				if o.kind == "pinrec" {
					opErr = p.Pin(ctx, nodes[o.n], true, o.name)
				} else {
					opErr = p.PinWithMode(ctx, nodes[o.n].Cid(), ipfspin.Recursive, o.name)
				}
				rec[o.n] = o.name
				delete(dir, o.n)
			case "pindir", "mode-dir":
				if o.kind == "pindir" {
					opErr = p.Pin(ctx, nodes[o.n], false, o.name)
				} else {
					opErr = p.PinWithMode(ctx, nodes[o.n].Cid(), ipfspin.Direct, o.name)
				}
				if _, isRec := rec[o.n]; isRec {
					wantErr = true
				} else {
					dir[o.n] = o.name
				}
			case "mode-bad":
				opErr = p.PinWithMode(ctx, nodes[o.n].Cid(), ipfspin.Indirect, "x")
				wantErr = true
			case "unpin":
				opErr = p.Unpin(ctx, nodes[o.n].Cid(), o.flag)
				_, isRec := rec[o.n]
				_, isDir := dir[o.n]
				switch {
				case isRec && !o.flag:
					wantErr = true
				case isRec:
					delete(rec, o.n)
					delete(dir, o.n)
				case isDir:
					delete(dir, o.n)
				default:
					wantErr = true
				}
			case "update":
				opErr = p.Update(ctx, nodes[o.n].Cid(), nodes[o.m].Cid(), o.flag)
				name, fromRec := rec[o.n]
				_, toRec := rec[o.m]
				switch {
				case !fromRec:
					wantErr = true
				case o.n == o.m:
				case toRec:
					wantErr = true
				default:
					rec[o.m] = name
					if o.flag {
						delete(rec, o.n)
					}
				}
			}
			if (opErr != nil) != wantErr {
				bad = fmt.Sprintf("step %d: the pinner answered err=%v, the model expects an error: %v", step, opErr, wantErr)
				break
			}
			// queries
			reach := map[int]bool{}
			var walk func(i int)
			walk = func(i int) {
				for _, ch := range children[i] {
					if !reach[ch] {
						reach[ch] = true
						walk(ch)
					}
				}
			}
			for r := range rec {
				walk(r)
			}
			all := make([]cid.Cid, len(nodes))
			for i, n := range nodes {
				all[i] = n.Cid()
			}
			checked, err := p.CheckIfPinnedWithType(ctx, ipfspin.Any, true, all...)
			if err != nil {
				bad = "CheckIfPinnedWithType: " + err.Error()
				break
			}
			byCid := map[string]ipfspin.Pinned{}
			for _, pi := range checked {
				byCid[pi.Key.KeyString()] = pi
			}
			for i, n := range nodes {
				_, isRec := rec[i]
				_, isDir := dir[i]
				mode, pinned, err := p.IsPinned(ctx, n.Cid())
				wantMode, wantPinned := "", false
				switch {
				case isRec:
					wantMode, wantPinned = "recursive", true
				case isDir:
					wantMode, wantPinned = "direct", true
				case reach[i]:
					wantPinned = true
				}
				if err != nil || pinned != wantPinned || (wantMode != "" && mode != wantMode) {
					bad = fmt.Sprintf("step %d: IsPinned(%s) = %q,%v (err %v), model %q,%v", step, names[i], mode, pinned, err, wantMode, wantPinned)
					break
				}
				_, r, _ := p.IsPinnedWithType(ctx, n.Cid(), ipfspin.Recursive)
				_, dd, _ := p.IsPinnedWithType(ctx, n.Cid(), ipfspin.Direct)
				if r != isRec || dd != isDir {
					bad = fmt.Sprintf("step %d: IsPinnedWithType(%s) recursive=%v direct=%v, model %v %v", step, names[i], r, dd, isRec, isDir)
					break
				}
				pi := byCid[n.Cid().KeyString()]
				switch {
				case isRec:
					if pi.Mode != ipfspin.Recursive || pi.Name != rec[i] {
						bad = fmt.Sprintf("step %d: batch check of %s: mode %v name %q, model recursive %q", step, names[i], pi.Mode, pi.Name, rec[i])
					}
				case isDir:
					if pi.Mode != ipfspin.Direct || pi.Name != dir[i] {
						bad = fmt.Sprintf("step %d: batch check of %s: mode %v name %q, model direct %q", step, names[i], pi.Mode, pi.Name, dir[i])
					}
				case reach[i]:
					if pi.Mode != ipfspin.Indirect {
						bad = fmt.Sprintf("step %d: batch check of %s: mode %v, model indirect", step, names[i], pi.Mode)
					}
				default:
					if pi.Mode != ipfspin.NotPinned {
						bad = fmt.Sprintf("step %d: batch check of %s: mode %v, model not pinned", step, names[i], pi.Mode)
					}
				}
				if bad != "" {
					break
				}
			}
			if bad != "" {
				break
			}
			listing := func(ch <-chan ipfspin.StreamedPin) string {
				var out []string
				for sp := range ch {
					if sp.Err != nil {
						out = append(out, "ERR:"+sp.Err.Error())
						continue
					}
					for i, n := range nodes {
						if n.Cid().Equals(sp.Pin.Key) {
							out = append(out, names[i]+"="+sp.Pin.Name)
						}
					}
				}
				sort.Strings(out)
				return fmt.Sprint(out)
			}
			want := func(m map[int]string) string {
				var out []string
				for i, nm := range m {
					out = append(out, names[i]+"="+nm)
				}
				sort.Strings(out)
				return fmt.Sprint(out)
			}
			if got := listing(p.RecursiveKeys(ctx, true)); got != want(rec) {
				bad = fmt.Sprintf("step %d: recursive pins listed as %s, model %s", step, got, want(rec))
			} else if got := listing(p.DirectKeys(ctx, true)); got != want(dir) {
				bad = fmt.Sprintf("step %d: direct pins listed as %s, model %s", step, got, want(dir))
			}
		}
		if bad != "" {
			fails++
			if fails <= 10 {
				fmt.Printf("VERIF-FAIL C22 %v: %s\n", trace, bad)
			}
		}
	}
	fmt.Printf("BOUNDED-STATS {\"cases\":%d,\"failures\":%d,\"bound\":\"%d operations, sequences of length %d (every %d-th), DAG A->{B,C}, B->{D}, E\"}\n", cases, fails, len(ops), seqLen, stride)
	if fails > 0 {
		t.Fail()
	}
}
