package blockservice

// Bounded stand-in for property C05 (labelled bounded; never counted as proved), with an honest
// exchange (it answers with the blocks it was asked for, when it has them): for every request
// list of length 1..4 over 5 CIDs (three blocks, one of them also under its CIDv1 form, and an
// identity-hash CID) - duplicates and aliases included -, every subset of the three blocks being
// in the local store and every subset being available from the exchange, GetBlocks and GetBlock
// are run, plain and through a session:
//   - only requested CIDs are emitted, each with bytes that hash to it;
//   - every requested block that is local or available from the exchange is emitted;
//   - the exchange is never asked for a block that is in the local store;
//   - every block that came from the exchange is in the local store when the caller receives it.

import (
	"context"
	"fmt"
	"os"
	"sync"
	"testing"

	blockstore "github.com/ipfs/boxo/blockstore"
	"github.com/ipfs/boxo/exchange"
	blocks "github.com/ipfs/go-block-format"
	cid "github.com/ipfs/go-cid"
	ds "github.com/ipfs/go-datastore"
	dssync "github.com/ipfs/go-datastore/sync"
	mh "github.com/multiformats/go-multihash"
)

type verifC05Exchange struct {
	exchange.Interface
	mu    sync.Mutex
	has   map[string]blocks.Block // by multihash
	asked []cid.Cid
}

func (e *verifC05Exchange) GetBlock(ctx context.Context, c cid.Cid) (blocks.Block, error) {
	e.mu.Lock()
	defer e.mu.Unlock()
	e.asked = append(e.asked, c)
	if b, ok := e.has[string(c.Hash())]; ok {
		return blocks.NewBlockWithCid(b.RawData(), c)
	}
	return nil, fmt.Errorf("exchange: not found")
}

func (e *verifC05Exchange) GetBlocks(ctx context.Context, ks []cid.Cid) (<-chan blocks.Block, error) {
	e.mu.Lock()
	defer e.mu.Unlock()
	ch := make(chan blocks.Block, len(ks))
	for _, c := range ks {
		e.asked = append(e.asked, c)
		if b, ok := e.has[string(c.Hash())]; ok {
			nb, _ := blocks.NewBlockWithCid(b.RawData(), c)
			ch <- nb
		}
	}
	close(ch)
	return ch, nil
}
func (e *verifC05Exchange) NotifyNewBlocks(context.Context, ...blocks.Block) error { return nil }
func (e *verifC05Exchange) Close() error                                           { return nil }

func TestVerifBoundedC05GetBlocksModel(t *testing.T) {
	ctx := context.Background()
	base := []blocks.Block{blocks.NewBlock([]byte("block A")), blocks.NewBlock([]byte("block B")), blocks.NewBlock([]byte("block C"))}
	idh, _ := mh.Sum([]byte("inline"), mh.IDENTITY, -1)
	cids := []cid.Cid{base[0].Cid(), base[1].Cid(), base[2].Cid(), cid.NewCidV1(cid.DagProtobuf, base[0].Cid().Hash()), cid.NewCidV1(cid.Raw, idh)}
	blockOf := func(c cid.Cid) int {
		for i, b := range base {
			if string(b.Cid().Hash()) == string(c.Hash()) {
				return i
			}
		}
		return -1
	}
	var reqs [][]int
	var gen func(cur []int)
	gen = func(cur []int) {
		if len(cur) > 0 {
			reqs = append(reqs, append([]int(nil), cur...))
		}
		if len(cur) == 4 {
			return
		}
		for i := range cids {
			gen(append(cur, i))
		}
	}
	gen(nil)
	stride := 1
	_ = os.Getenv
	cases, fails := 0, 0
	fail := func(format string, a ...any) {
		fails++
		if fails <= 10 {
			fmt.Printf("VERIF-FAIL C05 "+format+"\n", a...)
		}
	}
	for ri := 0; ri < len(reqs); ri += stride {
		req := reqs[ri]
		for local := 0; local < 8; local++ {
			for remote := 0; remote < 8; remote++ {
				for _, session := range []bool{false, true} {
					cases++
					bstore := blockstore.NewBlockstore(dssync.MutexWrap(ds.NewMapDatastore()))
					ex := &verifC05Exchange{has: map[string]blocks.Block{}}
					for i, b := range base {
						if local&(1<<i) != 0 {
							bstore.Put(ctx, b)
						}
						if remote&(1<<i) != 0 {
							ex.has[string(b.Cid().Hash())] = b
						}
					}
					bs := New(bstore, ex)
					var ks []cid.Cid
					for _, i := range req {
						ks = append(ks, cids[i])
					}
					var getter BlockGetter = bs
					if session {
						getter = NewSession(ctx, bs)
					}
					id := fmt.Sprintf("[request %v local %03b exchange %03b session %v]", req, local, remote, session)
					got := map[string]int{}
					for b := range getter.GetBlocks(ctx, ks) {
						requested := false
						for _, k := range ks {
							requested = requested || k.Equals(b.Cid())
						}
						if !requested {
							fail("%s: emitted %s, which was not requested", id, b.Cid())
						}
						if h, err := mh.Sum(b.RawData(), b.Cid().Prefix().MhType, -1); err != nil || string(h) != string(b.Cid().Hash()) {
							fail("%s: block %s carries bytes that do not hash to it", id, b.Cid())
						}
						if bi := blockOf(b.Cid()); bi >= 0 && local&(1<<bi) == 0 {
							if has, _ := bstore.Has(ctx, b.Cid()); !has {
								fail("%s: block %s came from the exchange and is not in the local store when handed out", id, b.Cid())
							}
						}
						got[b.Cid().KeyString()]++
					}
					for _, k := range ks {
						bi := blockOf(k)
						avail := k.Prefix().MhType == mh.IDENTITY || (bi >= 0 && (local&(1<<bi) != 0 || remote&(1<<bi) != 0))
						if avail && got[k.KeyString()] == 0 && k.Prefix().MhType != mh.IDENTITY {
							fail("%s: requested block %s is available (local or from the exchange) and was not emitted", id, k)
						}
					}
					for _, a := range ex.asked {
						if bi := blockOf(a); bi >= 0 && local&(1<<bi) != 0 {
							fail("%s: the exchange was asked for %s, which is in the local store", id, a)
						}
					}
					bs.Close()
				}
			}
		}
	}
	fmt.Printf("BOUNDED-STATS {\"cases\":%d,\"failures\":%d,\"bound\":\"every %d-th of %d request lists of length 1..4 over 5 CIDs x 8 local subsets x 8 exchange subsets x plain/session\"}\n", cases, fails, stride, len(reqs))
	if fails > 0 {
		t.Fail()
	}
}
