package chunk

// Bounded stand-in for property C06 (labelled bounded; never counted as proved):
// for a list of chunker specifications accepted by FromString (size-1, size-7, size-256,
// size-4096, rabin with small and default parameters, buzhash, default) and inputs of many
// lengths around the chunk boundaries (0, 1, size-1, size, size+1, 3*size+5, 1 MiB for the
// content-defined ones), read through readers that fragment their reads differently (whole,
// one byte at a time, 3 bytes, 4093 bytes, data-then-EOF in the same call):
//   - the chunks concatenate to the input, none is empty, none exceeds ChunkSizeLimit,
//   - size-N: every chunk but the last has exactly N bytes; rabin-min-avg-max: every chunk
//     but the last has between min and max bytes; buzhash: between its min and max,
//   - the chunk boundaries are the same for every reader fragmentation.

import (
	"bytes"
	"fmt"
	"io"
	"testing"
	"testing/iotest"
)

type verifC06Frag struct {
	r io.Reader
	n int
}

func (f *verifC06Frag) Read(p []byte) (int, error) {
	if len(p) > f.n {
		p = p[:f.n]
	}
	return f.r.Read(p)
}

func TestVerifBoundedC06ChunkerModel(t *testing.T) {
	big := make([]byte, 1<<20+17)
	x := uint64(88172645463325252)
	for i := range big {
		x ^= x << 13
		x ^= x >> 7
		x ^= x << 17
		big[i] = byte(x >> 11)
	}
	type spec struct {
		s        string
		min, max int // bounds of every chunk but the last (0 = unknown)
		exact    int
		lengths  []int
	}
	around := func(n int) []int { return []int{0, 1, n - 1, n, n + 1, 2 * n, 3*n + 5} }
	specs := []spec{
		{"size-1", 1, 1, 1, []int{0, 1, 2, 17}},
		{"size-7", 7, 7, 7, around(7)},
		{"size-256", 256, 256, 256, around(256)},
		{"size-4096", 4096, 4096, 4096, around(4096)},
		{"rabin-16-32-64", 16, 64, 0, []int{0, 1, 15, 16, 17, 63, 64, 65, 1000, 20000}},
		{"rabin-64-128-1024", 64, 1024, 0, []int{0, 63, 64, 1023, 1024, 1025, 50000}},
		{"rabin-1024", 0, 0, 0, []int{0, 1, 5000, 200000}},
		{"rabin", 0, 0, 0, []int{0, 1, 1 << 20}},
		{"buzhash", 128 << 10, 512 << 10, 0, []int{0, 1, 128<<10 - 1, 128 << 10, 128<<10 + 1, 1<<20 + 17}},
		{"default", int(DefaultBlockSize), int(DefaultBlockSize), int(DefaultBlockSize), []int{0, 1, int(DefaultBlockSize) + 1}},
	}
	cases, fails := 0, 0
	for _, sp := range specs {
		for _, n := range sp.lengths {
			if n < 0 || n > len(big) {
				continue
			}
			data := big[:n]
			var reference []int
			readers := map[string]func() io.Reader{
				"whole":     func() io.Reader { return bytes.NewReader(data) },
				"one-byte":  func() io.Reader { return iotest.OneByteReader(bytes.NewReader(data)) },
				"3-bytes":   func() io.Reader { return &verifC06Frag{bytes.NewReader(data), 3} },
				"4093":      func() io.Reader { return &verifC06Frag{bytes.NewReader(data), 4093} },
				"data+eof":  func() io.Reader { return iotest.DataErrReader(bytes.NewReader(data)) },
				"half-read": func() io.Reader { return iotest.HalfReader(bytes.NewReader(data)) },
			}
			for _, rn := range []string{"whole", "one-byte", "3-bytes", "4093", "data+eof", "half-read"} {
				if rn == "one-byte" && n > 300000 {
					continue
				}
				cases++
				id := fmt.Sprintf("[%s len=%d reader=%s]", sp.s, n, rn)
				spl, err := FromString(readers[rn](), sp.s)
				if err != nil {
					t.Fatalf("%s: %v", id, err)
				}
				var got []byte
				var sizes []int
				bad := ""
				for {
					c, err := spl.NextBytes()
					if err == io.EOF {
						break
					}
					if err != nil {
						bad = "error: " + err.Error()
						break
					}
					if len(c) == 0 {
						bad = "empty chunk"
						break
					}
					if len(c) > ChunkSizeLimit {
						bad = fmt.Sprintf("chunk of %d bytes exceeds the limit", len(c))
						break
					}
					got = append(got, c...)
					sizes = append(sizes, len(c))
					if len(got) > n {
						bad = "more output than input"
						break
					}
				}
				if bad == "" && !bytes.Equal(got, data) {
					bad = fmt.Sprintf("chunks concatenate to %d bytes that differ from the %d input bytes", len(got), n)
				}
				if bad == "" {
					for i, sz := range sizes {
						last := i == len(sizes)-1
						if sp.exact > 0 && !last && sz != sp.exact {
							bad = fmt.Sprintf("chunk %d has %d bytes, want exactly %d", i, sz, sp.exact)
						}
						if sp.max > 0 && sz > sp.max {
							bad = fmt.Sprintf("chunk %d has %d bytes, more than the maximum %d", i, sz, sp.max)
						}
						if sp.min > 0 && !last && sz < sp.min {
							bad = fmt.Sprintf("chunk %d has %d bytes, less than the minimum %d", i, sz, sp.min)
						}
					}
				}
				if bad == "" {
					if reference == nil {
						reference = append([]int{}, sizes...)
					} else if fmt.Sprint(reference) != fmt.Sprint(sizes) {
						bad = fmt.Sprintf("boundaries depend on read fragmentation: %d chunks vs %d with a whole-input reader (first sizes %v vs %v)", len(sizes), len(reference), head(sizes), head(reference))
					}
				}
				if bad != "" {
					fails++
					if fails <= 12 {
						fmt.Printf("VERIF-FAIL C06 %s: %s\n", id, bad)
					}
				}
			}
		}
	}
	fmt.Printf("BOUNDED-STATS {\"cases\":%d,\"failures\":%d}\n", cases, fails)
	if fails > 0 {
		t.Fail()
	}
}

func head(s []int) []int {
	if len(s) > 4 {
		return s[:4]
	}
	return s
}
