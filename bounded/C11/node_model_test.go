package merkledag

// Bounded stand-in for property C11 (labelled bounded; never counted as proved):
// every sequence of 4 operations (thorough: 5, sampled) over an alphabet of
// ProtoNode mutators and observers is run; after every step
//   - Cid() equals the current builder's Sum of RawData() (never a stale CID),
//   - DecodeProtobuf(RawData()) has the same data and the same links in the same order,
//   - the links seen through Links() are sorted by name with equal names in insertion order
//     (checked against a model list),
// and two nodes built from the same data and distinct-named links in different insertion
// orders encode identically.

import (
	"bytes"
	"fmt"
	"os"
	"sort"
	"testing"

	cid "github.com/ipfs/go-cid"
	format "github.com/ipfs/go-ipld-format"
	mh "github.com/multiformats/go-multihash"
)

type verifC11Link struct {
	name string
	c    cid.Cid
	size uint64
	seq  int
}

func TestVerifBoundedC11NodeModel(t *testing.T) {
	mk := func(s string) cid.Cid {
		c, err := cid.V1Builder{Codec: cid.Raw, MhType: mh.SHA2_256}.Sum([]byte(s))
		if err != nil {
			t.Fatal(err)
		}
		return c
	}
	ca, cb := mk("a"), mk("b")
	type op struct {
		name string
		run  func(n *ProtoNode, model *[]verifC11Link, data *[]byte, seq *int)
	}
	addLink := func(name string, c cid.Cid, size uint64) op {
		return op{fmt.Sprintf("AddRawLink(%q)", name), func(n *ProtoNode, model *[]verifC11Link, data *[]byte, seq *int) {
			if err := n.AddRawLink(name, &format.Link{Cid: c, Size: size}); err == nil {
				*seq++
				*model = append(*model, verifC11Link{name, c, size, *seq})
			}
		}}
	}
	ops := []op{
		{"SetData(x)", func(n *ProtoNode, _ *[]verifC11Link, data *[]byte, _ *int) { n.SetData([]byte("x")); *data = []byte("x") }},
		{"SetData(nil)", func(n *ProtoNode, _ *[]verifC11Link, data *[]byte, _ *int) { n.SetData(nil); *data = nil }},
		addLink("b", ca, 1), addLink("a", cb, 2), addLink("a", ca, 3), addLink("", cb, 4),
		{"AddRawLink(undefined cid)", func(n *ProtoNode, _ *[]verifC11Link, _ *[]byte, _ *int) {
			_ = n.AddRawLink("z", &format.Link{})
		}},
		{"RemoveNodeLink(a)", func(n *ProtoNode, model *[]verifC11Link, _ *[]byte, _ *int) {
			if err := n.RemoveNodeLink("a"); err == nil {
				var keep []verifC11Link
				for _, l := range *model {
					if l.name != "a" {
						keep = append(keep, l)
					}
				}
				*model = keep
			}
		}},
		{"SetLinks(c,b)", func(n *ProtoNode, model *[]verifC11Link, _ *[]byte, seq *int) {
			if err := n.SetLinks([]*format.Link{{Name: "c", Cid: ca, Size: 5}, {Name: "b", Cid: cb, Size: 6}}); err == nil {
				*seq += 2
				*model = []verifC11Link{{"c", ca, 5, *seq - 1}, {"b", cb, 6, *seq}}
			}
		}},
		{"SetLinks(invalid)", func(n *ProtoNode, _ *[]verifC11Link, _ *[]byte, _ *int) {
			_ = n.SetLinks([]*format.Link{{Name: "c", Cid: ca}, {Name: "bad"}})
		}},
		{"SetCidBuilder(v1)", func(n *ProtoNode, _ *[]verifC11Link, _ *[]byte, _ *int) {
			_ = n.SetCidBuilder(cid.V1Builder{Codec: cid.DagProtobuf, MhType: mh.SHA2_256})
		}},
		{"SetCidBuilder(v1 sha512)", func(n *ProtoNode, _ *[]verifC11Link, _ *[]byte, _ *int) {
			_ = n.SetCidBuilder(cid.Prefix{Version: 1, Codec: cid.DagProtobuf, MhType: mh.SHA2_512, MhLength: -1})
		}},
		{"SetCidBuilder(nil)", func(n *ProtoNode, _ *[]verifC11Link, _ *[]byte, _ *int) { _ = n.SetCidBuilder(nil) }},
		{"Cid()", func(n *ProtoNode, _ *[]verifC11Link, _ *[]byte, _ *int) { _ = n.Cid() }},
		{"Links()", func(n *ProtoNode, _ *[]verifC11Link, _ *[]byte, _ *int) { _ = n.Links() }},
		{"Copy then mutate the copy", func(n *ProtoNode, _ *[]verifC11Link, _ *[]byte, _ *int) {
			c := n.Copy().(*ProtoNode)
			_ = c.RemoveNodeLink("a")
			_ = c.AddRawLink("0", &format.Link{Cid: ca, Size: 9})
			c.SetData([]byte("copy"))
			_ = c.Cid()
		}},
		{"UnmarshalJSON(valid)", func(n *ProtoNode, model *[]verifC11Link, data *[]byte, seq *int) {
			src := NodeWithData([]byte("j"))
			_ = src.AddRawLink("q", &format.Link{Cid: ca, Size: 7})
			b, err := src.MarshalJSON()
			if err != nil {
				t.Fatal(err)
			}
			if err := n.UnmarshalJSON(b); err == nil {
				*seq++
				*data = []byte("j")
				*model = []verifC11Link{{"q", ca, 7, *seq}}
			}
		}},
		{"UnmarshalJSON(invalid link)", func(n *ProtoNode, model *[]verifC11Link, data *[]byte, seq *int) {
			// a failed call may or may not have replaced data and links: whatever the node
			// now shows through Data()/Links() is taken as the model, the cache checks follow
			_ = n.UnmarshalJSON([]byte(`{"data":"eQ==","links":[{"Name":"w","Size":1}]}`))
			*data = n.Data()
			var m []verifC11Link
			for _, l := range n.links {
				*seq++
				m = append(m, verifC11Link{l.Name, l.Cid, l.Size, *seq})
			}
			*model = m
		}},
	}
	seqLen, stride := 4, 1
	if os.Getenv("VERIF_TIER") == "thorough" {
		seqLen, stride = 5, 3
	}
	total := 1
	for i := 0; i < seqLen; i++ {
		total *= len(ops)
	}
	cases, fails := 0, 0
	for idx := 0; idx < total; idx += stride {
		cases++
		n := new(ProtoNode)
		var model []verifC11Link
		var data []byte
		seq := 0
		var names []string
		bad := ""
		for i, k := 0, idx; i < seqLen && bad == ""; i++ {
			o := ops[k%len(ops)]
			k /= len(ops)
			names = append(names, o.name)
			o.run(n, &model, &data, &seq)
			// --- observations
			raw := n.RawData()
			want, err := n.CidBuilder().Sum(raw)
			if err != nil {
				bad = "builder: " + err.Error()
				break
			}
			if got := n.Cid(); !got.Equals(want) {
				bad = fmt.Sprintf("Cid() is %s, the current encoding hashes to %s under the current builder", got, want)
				break
			}
			exp := append([]verifC11Link(nil), model...)
			sort.SliceStable(exp, func(a, b int) bool { return exp[a].name < exp[b].name })
			var valid []verifC11Link
			for _, l := range exp {
				if l.c.Defined() {
					valid = append(valid, l)
				}
			}
			dec, err := DecodeProtobuf(raw)
			if err != nil {
				bad = "decode: " + err.Error()
				break
			}
			if !bytes.Equal(dec.Data(), data) {
				bad = fmt.Sprintf("decoded data %q, model %q", dec.Data(), data)
				break
			}
			dl := dec.Links()
			if len(dl) != len(valid) {
				bad = fmt.Sprintf("decoded %d links, model has %d", len(dl), len(valid))
				break
			}
			for j, l := range dl {
				if l.Name != valid[j].name || !l.Cid.Equals(valid[j].c) || l.Size != valid[j].size {
					bad = fmt.Sprintf("decoded link %d is (%q,%s,%d), model (%q,%s,%d)", j, l.Name, l.Cid, l.Size, valid[j].name, valid[j].c, valid[j].size)
					break
				}
			}
		}
		if bad != "" {
			fails++
			if fails <= 10 {
				fmt.Printf("VERIF-FAIL C11 %v: %s\n", names, bad)
			}
		}
	}
	// stable order of many links with equal names (sorting algorithms switch strategy with size)
	{
		cases++
		n := NodeWithData(nil)
		var want []string
		for i := 0; i < 40; i++ {
			name := []string{"y", "x", "z"}[i%3]
			if err := n.AddRawLink(name, &format.Link{Cid: ca, Size: uint64(i)}); err != nil {
				t.Fatal(err)
			}
		}
		for _, nm := range []string{"x", "y", "z"} {
			for i := 0; i < 40; i++ {
				if []string{"y", "x", "z"}[i%3] == nm {
					want = append(want, fmt.Sprintf("%s%d", nm, i))
				}
			}
		}
		dec, err := DecodeProtobuf(n.RawData())
		if err != nil {
			t.Fatal(err)
		}
		var got []string
		for _, l := range dec.Links() {
			got = append(got, fmt.Sprintf("%s%d", l.Name, l.Size))
		}
		if fmt.Sprint(got) != fmt.Sprint(want) {
			fails++
			fmt.Printf("VERIF-FAIL C11 40 links with 3 distinct names: encoded order %v, want name order with insertion order kept %v\n", got, want)
		}
	}
	// canonical form: insertion order of distinct names does not matter
	perm := [][]int{{0, 1, 2}, {0, 2, 1}, {1, 0, 2}, {1, 2, 0}, {2, 0, 1}, {2, 1, 0}}
	lk := []verifC11Link{{"a", ca, 1, 0}, {"b", cb, 2, 0}, {"c", ca, 3, 0}}
	var first []byte
	for _, p := range perm {
		cases++
		n := NodeWithData([]byte("d"))
		for _, i := range p {
			if err := n.AddRawLink(lk[i].name, &format.Link{Cid: lk[i].c, Size: lk[i].size}); err != nil {
				t.Fatal(err)
			}
		}
		if first == nil {
			first = n.RawData()
		} else if !bytes.Equal(first, n.RawData()) {
			fails++
			fmt.Printf("VERIF-FAIL C11 insertion order %v changes the encoding\n", p)
		}
	}
	fmt.Printf("BOUNDED-STATS {\"cases\":%d,\"failures\":%d,\"bound\":\"%d operations, sequences of length %d (every %d-th)\"}\n", cases, fails, len(ops), seqLen, stride)
	if fails > 0 {
		t.Fail()
	}
}
