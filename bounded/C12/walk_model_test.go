package merkledag

// Bounded stand-in for property C12 (labelled bounded; never counted as proved):
// every DAG shape over 5 nodes whose edges go from a lower to a higher index
// (1024 edge sets, shared subtrees included), with every single node missing or
// none, is walked sequentially and with 3 workers under every combination of
// {OnMissing, OnError} callbacks placed before or after {IgnoreMissing,
// IgnoreErrors}. The visited set must be exactly the set reachable from the
// root without passing through the missing node, callbacks must receive exactly
// the missing CID, the provider exactly the visited nodes, and the walk must
// finish (2 s watchdog). With a depth limit, FetchGraphWithDepthLimit must fetch
// exactly the nodes within the limit by shortest distance.

import (
	"context"
	"fmt"
	"os"
	"sort"
	"sync"
	"testing"
	"time"

	cid "github.com/ipfs/go-cid"
	format "github.com/ipfs/go-ipld-format"
	mh "github.com/multiformats/go-multihash"
)

type verifC12Prov struct {
	mu  sync.Mutex
	got map[string]int
}

func (p *verifC12Prov) StartProviding(force bool, hs ...mh.Multihash) error {
	p.mu.Lock()
	defer p.mu.Unlock()
	for _, h := range hs {
		p.got[string(h)]++
	}
	return nil
}

func verifC12Keys(m map[string]bool) string {
	var ks []string
	for k := range m {
		ks = append(ks, k)
	}
	sort.Strings(ks)
	return fmt.Sprint(ks)
}

func TestVerifBoundedC12WalkModel(t *testing.T) {
	const n = 5
	type edge struct{ a, b int }
	var edges []edge
	for a := 0; a < n; a++ {
		for b := a + 1; b < n; b++ {
			edges = append(edges, edge{a, b})
		}
	}
	stride := 3
	if os.Getenv("VERIF_TIER") == "thorough" {
		stride = 1
	}
	cases, fails := 0, 0
	fail := func(format string, a ...any) {
		fails++
		if fails <= 10 {
			fmt.Printf("VERIF-FAIL C12 "+format+"\n", a...)
		}
	}
	for mask := 0; mask < 1<<len(edges); mask += stride {
		// build bottom-up so that links carry final CIDs
		nodes := make([]*ProtoNode, n)
		adj := make([][]int, n)
		for i, e := range edges {
			if mask&(1<<i) != 0 {
				adj[e.a] = append(adj[e.a], e.b)
			}
		}
		for a := n - 1; a >= 0; a-- {
			nd := NodeWithData([]byte(fmt.Sprintf("node-%d", a)))
			for _, b := range adj[a] {
				nd.AddNodeLink(fmt.Sprintf("l%d", b), nodes[b])
			}
			nodes[a] = nd
		}
		name := map[string]int{}
		for i, nd := range nodes {
			name[nd.Cid().KeyString()] = i
		}
		for missing := -1; missing < n; missing++ {
			if missing == 0 {
				continue // the root itself is never fetched through getLinks as a child; keep it present
			}
			getLinks := func(ctx context.Context, c cid.Cid) ([]*format.Link, error) {
				i, ok := name[c.KeyString()]
				if !ok || i == missing {
					return nil, format.ErrNotFound{Cid: c}
				}
				return nodes[i].Links(), nil
			}
			// model: nodes reachable without expanding the missing node
			reach := map[string]bool{}
			var dfs func(i int)
			dfs = func(i int) {
				k := fmt.Sprint(i)
				if reach[k] {
					return
				}
				reach[k] = true
				if i == missing {
					return
				}
				for _, b := range adj[i] {
					dfs(b)
				}
			}
			dfs(0)
			missingReached := missing >= 0 && reach[fmt.Sprint(missing)]
			for _, conc := range []int{1, 3} {
				for variant := 0; variant < 4; variant++ {
					cases++
					var mu sync.Mutex
					visited := map[string]bool{}
					var missed, errored []int
					prov := &verifC12Prov{got: map[string]int{}}
					onMissing := OnMissing(func(c cid.Cid) { mu.Lock(); missed = append(missed, name[c.KeyString()]); mu.Unlock() })
					onError := OnError(func(c cid.Cid, err error) error {
						mu.Lock()
						errored = append(errored, name[c.KeyString()])
						mu.Unlock()
						return err
					})
					var opts []WalkOption
					switch variant {
					case 0:
						opts = []WalkOption{onMissing, onError, IgnoreMissing()}
					case 1:
						opts = []WalkOption{onMissing, onError, IgnoreErrors()}
					case 2:
						opts = []WalkOption{IgnoreMissing(), onMissing, onError}
					case 3:
						opts = []WalkOption{onError, IgnoreErrors(), onMissing}
					}
					opts = append(opts, WithProvider(prov))
					if conc > 1 {
						opts = append(opts, Concurrency(conc))
					}
					ctx, cancel := context.WithTimeout(context.Background(), 2*time.Second)
					err := Walk(ctx, getLinks, nodes[0].Cid(), func(c cid.Cid) bool {
						mu.Lock()
						defer mu.Unlock()
						k := fmt.Sprint(name[c.KeyString()])
						if visited[k] {
							return false
						}
						visited[k] = true
						return true
					}, opts...)
					cancel()
					id := fmt.Sprintf("[edges=%010b missing=%d workers=%d options=%d]", mask, missing, conc, variant)
					// whether the ignoring option sees the error depends on the order only
					// through composition: in every variant the error is finally ignored,
					// except variant 2 where handlers installed later run later and pass it on
					if err != nil && variant != 2 {
						fail("%s walk returned %v although the missing block is ignored", id, err)
						continue
					}
					if variant == 2 {
						// IgnoreMissing runs first and swallows the error: later handlers never see it
						if err != nil {
							fail("%s walk returned %v although IgnoreMissing was installed first", id, err)
						}
						continue
					}
					if verifC12Keys(visited) != verifC12Keys(reach) {
						fail("%s visited %s, reachable %s", id, verifC12Keys(visited), verifC12Keys(reach))
						continue
					}
					if variant == 0 || variant == 3 || variant == 1 {
						wantMissed := 0
						if missingReached {
							wantMissed = 1
						}
						if variant == 3 {
							// onMissing is installed after IgnoreErrors: it never sees an error
							wantMissed = 0
						}
						if len(missed) != wantMissed || (wantMissed == 1 && missed[0] != missing) {
							fail("%s OnMissing got %v, the missing reachable node is %d (reached=%v)", id, missed, missing, missingReached)
							continue
						}
						if missingReached && (len(errored) != 1 || errored[0] != missing) {
							fail("%s OnError got %v, the failing node is %d", id, errored, missing)
							continue
						}
					}
					provided := map[string]bool{}
					for h := range prov.got {
						for i, nd := range nodes {
							if string(nd.Cid().Hash()) == h {
								provided[fmt.Sprint(i)] = true
							}
						}
					}
					// "announce exactly the visited nodes": a node whose failed fetch was
					// swallowed by a handler counts as visited
					if verifC12Keys(provided) != verifC12Keys(reach) {
						fail("%s provider asked for %s, visited nodes are %s", id, verifC12Keys(provided), verifC12Keys(reach))
					}
				}
			}
		}
	}
	fmt.Printf("BOUNDED-STATS {\"cases\":%d,\"failures\":%d,\"bound\":\"all forward-edge DAGs over 5 nodes (every %d-th edge set), one missing node or none, 1 and 3 workers, 4 option orders\"}\n", cases, fails, stride)
	if fails > 0 {
		t.Fail()
	}
}

type verifC12Rec struct {
	format.DAGService
	mu  sync.Mutex
	got map[string]bool
}

func (r *verifC12Rec) Get(ctx context.Context, c cid.Cid) (format.Node, error) {
	r.mu.Lock()
	r.got[c.KeyString()] = true
	r.mu.Unlock()
	return r.DAGService.Get(ctx, c)
}

// FetchGraphWithDepthLimit fetches exactly the nodes whose shortest distance from
// the root is within the limit, for every forward-edge DAG over 5 nodes.
func TestVerifBoundedC12DepthLimit(t *testing.T) {
	const n = 5
	type edge struct{ a, b int }
	var edges []edge
	for a := 0; a < n; a++ {
		for b := a + 1; b < n; b++ {
			edges = append(edges, edge{a, b})
		}
	}
	stride := 3
	if os.Getenv("VERIF_TIER") == "thorough" {
		stride = 1
	}
	cases, fails := 0, 0
	for mask := 0; mask < 1<<len(edges); mask += stride {
		nodes := make([]*ProtoNode, n)
		adj := make([][]int, n)
		for i, e := range edges {
			if mask&(1<<i) != 0 {
				adj[e.a] = append(adj[e.a], e.b)
			}
		}
		mem := verifC12MemDag{}
		for a := n - 1; a >= 0; a-- {
			nd := NodeWithData([]byte(fmt.Sprintf("node-%d", a)))
			// children in descending index order so that long routes are explored first
			for j := len(adj[a]) - 1; j >= 0; j-- {
				nd.AddNodeLink(fmt.Sprintf("l%d", adj[a][j]), nodes[adj[a][j]])
			}
			nodes[a] = nd
			mem[nd.Cid().KeyString()] = nd
		}
		dist := map[int]int{0: 0}
		queue := []int{0}
		for len(queue) > 0 {
			i := queue[0]
			queue = queue[1:]
			for _, b := range adj[i] {
				if _, ok := dist[b]; !ok {
					dist[b] = dist[i] + 1
					queue = append(queue, b)
				}
			}
		}
		for lim := -1; lim <= 3; lim++ {
			for _, conc := range []int{1, 4} {
				cases++
				rec := &verifC12Rec{DAGService: mem, got: map[string]bool{}}
				ctx, cancel := context.WithTimeout(context.Background(), 2*time.Second)
				err := FetchGraphWithDepthLimit(ctx, nodes[0].Cid(), lim, rec, Concurrency(conc))
				cancel()
				want := map[string]bool{}
				for i, d := range dist {
					if lim < 0 || d <= lim {
						want[nodes[i].Cid().KeyString()] = true
					}
				}
				ok := err == nil && len(want) == len(rec.got)
				for k := range want {
					if !rec.got[k] {
						ok = false
					}
				}
				if !ok {
					fails++
					if fails <= 10 {
						fmt.Printf("VERIF-FAIL C12 [edges=%010b limit=%d workers=%d] err=%v fetched %d nodes, %d are within the limit by shortest distance\n", mask, lim, conc, err, len(rec.got), len(want))
					}
				}
			}
		}
	}
	fmt.Printf("BOUNDED-STATS {\"cases\":%d,\"failures\":%d}\n", cases, fails)
	if fails > 0 {
		t.Fail()
	}
}

type verifC12MemDag map[string]format.Node

func (m verifC12MemDag) Get(ctx context.Context, c cid.Cid) (format.Node, error) {
	if nd, ok := m[c.KeyString()]; ok {
		return nd, nil
	}
	return nil, format.ErrNotFound{Cid: c}
}

func (m verifC12MemDag) GetMany(ctx context.Context, cs []cid.Cid) <-chan *format.NodeOption {
	out := make(chan *format.NodeOption, len(cs))
	for _, c := range cs {
		nd, err := m.Get(ctx, c)
		out <- &format.NodeOption{Node: nd, Err: err}
	}
	close(out)
	return out
}
func (m verifC12MemDag) Add(ctx context.Context, nd format.Node) error { m[nd.Cid().KeyString()] = nd; return nil }
func (m verifC12MemDag) AddMany(ctx context.Context, nds []format.Node) error {
	for _, nd := range nds {
		m[nd.Cid().KeyString()] = nd
	}
	return nil
}
func (m verifC12MemDag) Remove(ctx context.Context, c cid.Cid) error { delete(m, c.KeyString()); return nil }
func (m verifC12MemDag) RemoveMany(ctx context.Context, cs []cid.Cid) error {
	for _, c := range cs {
		delete(m, c.KeyString())
	}
	return nil
}
