package importer

// Bounded stand-in for property C07 (labelled bounded; never counted as proved):
// byte streams of 0..N chunks (plus a ragged tail) are imported with the balanced and the
// trickle layout, DAG widths 2..4 (thorough 2..6), raw and dag-pb leaves, CIDv0/CIDv1
// (sha2-256, sha2-512), without attributes, with a mode only, a modification time only, and both. Checked on every import:
//   - the file reads back as the input and reports the input length,
//   - every internal node's recorded size is the sum of its block sizes and every block
//     size is that child's content length,
//   - balanced: at most width children per node and all leaves at the same depth with
//     every node but the right-most spine full; trickle: VerifyTrickleDagStructure,
//   - the requested mode/mtime are reported by the root,
//   - a second import of the same input gives the same root CID.

import (
	"bytes"
	"context"
	"fmt"
	"io"
	"os"
	"testing"
	"time"

	chunker "github.com/ipfs/boxo/chunker"
	mdag "github.com/ipfs/boxo/ipld/merkledag"
	mdtest "github.com/ipfs/boxo/ipld/merkledag/test"
	ft "github.com/ipfs/boxo/ipld/unixfs"
	"github.com/ipfs/boxo/ipld/unixfs/importer/balanced"
	h "github.com/ipfs/boxo/ipld/unixfs/importer/helpers"
	"github.com/ipfs/boxo/ipld/unixfs/importer/trickle"
	uio "github.com/ipfs/boxo/ipld/unixfs/io"
	cid "github.com/ipfs/go-cid"
	ipld "github.com/ipfs/go-ipld-format"
	mh "github.com/multiformats/go-multihash"
)

// returns content length, depth of the leaves below n (-1 if uneven), error text
func verifC07Walk(ctx context.Context, ds ipld.DAGService, n ipld.Node, width int, balancedShape bool) (uint64, int, string) {
	switch nd := n.(type) {
	case *mdag.RawNode:
		return uint64(len(nd.RawData())), 0, ""
	case *mdag.ProtoNode:
		fsn, err := ft.FSNodeFromBytes(nd.Data())
		if err != nil {
			return 0, 0, err.Error()
		}
		if len(nd.Links()) == 0 {
			if fsn.FileSize() != uint64(len(fsn.Data())) {
				return 0, 0, fmt.Sprintf("leaf records size %d for %d bytes", fsn.FileSize(), len(fsn.Data()))
			}
			return fsn.FileSize(), 0, ""
		}
		if len(fsn.Data()) != 0 {
			return 0, 0, "internal node carries data"
		}
		if fsn.NumChildren() != len(nd.Links()) {
			return 0, 0, fmt.Sprintf("%d block sizes for %d links", fsn.NumChildren(), len(nd.Links()))
		}
		if balancedShape && len(nd.Links()) > width {
			return 0, 0, fmt.Sprintf("%d children in a DAG of width %d", len(nd.Links()), width)
		}
		var sum uint64
		depth := -2
		for i, l := range nd.Links() {
			c, err := l.GetNode(ctx, ds)
			if err != nil {
				return 0, 0, err.Error()
			}
			cs, cd, bad := verifC07Walk(ctx, ds, c, width, balancedShape)
			if bad != "" {
				return 0, 0, bad
			}
			if fsn.BlockSize(i) != cs {
				return 0, 0, fmt.Sprintf("block size %d recorded for a child holding %d bytes", fsn.BlockSize(i), cs)
			}
			if balancedShape {
				if depth == -2 {
					depth = cd
				} else if depth != cd {
					return 0, 0, "leaves at different depths"
				}
			}
			sum += cs
		}
		if fsn.FileSize() != sum {
			return 0, 0, fmt.Sprintf("recorded size %d, children sum to %d", fsn.FileSize(), sum)
		}
		return sum, depth + 1, ""
	}
	return 0, 0, fmt.Sprintf("unexpected node type %T", n)
}

func TestVerifBoundedC07ImportModel(t *testing.T) {
	ctx := context.Background()
	const chunk = 4
	maxW, maxChunks := 4, 40
	if os.Getenv("VERIF_TIER") == "thorough" {
		maxW, maxChunks = 6, 120
	}
	data := make([]byte, (maxChunks+1)*chunk)
	for i := range data {
		data[i] = byte(i*11 + i/253)
	}
	builders := []cid.Builder{nil, cid.V1Builder{Codec: cid.DagProtobuf, MhType: mh.SHA2_256}, cid.V1Builder{Codec: cid.DagProtobuf, MhType: mh.SHA2_512}}
	mtime := time.Unix(1700000000, 0)
	cases, fails := 0, 0
	for _, layout := range []string{"balanced", "trickle"} {
		for w := 2; w <= maxW; w++ {
			for _, raw := range []bool{false, true} {
				for bi, bld := range builders {
					// attrs: bit 0 = a mode is requested, bit 1 = a modification time is requested
					for attrs := 0; attrs < 4; attrs++ {
						if (attrs == 1 || attrs == 2) && bi != 0 {
							continue // one attribute alone: first CID builder only
						}
						for n := 0; n <= maxChunks; n += 1 + n/12 {
							for _, ragged := range []int{0, 1} {
								size := n*chunk - ragged
								if size < 0 {
									continue
								}
								cases++
								id := fmt.Sprintf("[%s width=%d raw=%v builder=%d attrs=%v size=%d]", layout, w, raw, bi, attrs, size)
								fail := func(what string) {
									fails++
									if fails <= 12 {
										fmt.Printf("VERIF-FAIL C07 %s: %s\n", id, what)
									}
								}
								build := func() (ipld.Node, ipld.DAGService, error) {
									ds := mdtest.Mock()
									dbp := h.DagBuilderParams{Dagserv: ds, Maxlinks: w, RawLeaves: raw, CidBuilder: bld}
									if attrs&1 != 0 {
										dbp.FileMode = 0o640
									}
									if attrs&2 != 0 {
										dbp.FileModTime = mtime
									}
									db, err := dbp.New(chunker.NewSizeSplitter(bytes.NewReader(data[:size]), chunk))
									if err != nil {
										return nil, nil, err
									}
									var nd ipld.Node
									if layout == "balanced" {
										nd, err = balanced.Layout(db)
									} else {
										nd, err = trickle.Layout(db)
									}
									return nd, ds, err
								}
								nd, ds, err := build()
								if err != nil {
									fail("import: " + err.Error())
									continue
								}
								rd, err := uio.NewDagReader(ctx, nd, ds)
								if err != nil {
									fail("reader: " + err.Error())
									continue
								}
								got, err := io.ReadAll(rd)
								if err != nil || !bytes.Equal(got, data[:size]) || rd.Size() != uint64(size) {
									fail(fmt.Sprintf("reads back %d bytes (err %v), reports size %d", len(got), err, rd.Size()))
									continue
								}
								total, _, bad := verifC07Walk(ctx, ds, nd, w, layout == "balanced")
								if bad != "" || total != uint64(size) {
									fail(fmt.Sprintf("size bookkeeping / shape: %s (total %d)", bad, total))
									continue
								}
								if layout == "trickle" {
									if pn, ok := nd.(*mdag.ProtoNode); ok && len(pn.Links()) > 0 {
										if err := trickle.VerifyTrickleDagStructure(nd, trickle.VerifyParams{Getter: ds, Direct: w, LayerRepeat: 4, RawLeaves: raw}); err != nil {
											fail("trickle structure: " + err.Error())
											continue
										}
									}
								}
								if attrs&1 != 0 && rd.Mode() != 0o640 {
									fail(fmt.Sprintf("requested mode 0640, the file reports mode %o", rd.Mode()))
									continue
								}
								if attrs&2 != 0 && !rd.ModTime().Equal(mtime) {
									fail(fmt.Sprintf("requested mtime %v, the file reports mtime %v", mtime.Unix(), rd.ModTime().Unix()))
									continue
								}
								nd2, _, err := build()
								if err != nil || !nd2.Cid().Equals(nd.Cid()) {
									fail("a second import of the same input gives a different root")
								}
							}
						}
					}
				}
			}
		}
	}
	fmt.Printf("BOUNDED-STATS {\"cases\":%d,\"failures\":%d,\"bound\":\"balanced+trickle, widths 2..%d, up to %d chunks of %d bytes, raw/dag-pb leaves, 3 CID builders, no attributes / mode only / mtime only / both\"}\n", cases, fails, maxW, maxChunks, chunk)
	if fails > 0 {
		t.Fail()
	}
}
