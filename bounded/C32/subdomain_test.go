package gateway

// Bounded stand-in for property C32 (labelled bounded; never counted as proved):
//  - every DNS name made of 1..3 labels over the label set {a, ab, a-b, a--b, x1, 0, a-b-c, 9-9}
//    (LDH labels: no leading or trailing hyphen) survives InlineDNSLink -> UninlineDNSLink,
//    and the inlined form has no dot and at most 63 characters or is refused;
//  - for a set of content paths (CIDv0, CIDv1 base32, CIDv1 sha2-512 too long for a label,
//    PeerID forms, DNSLink names) x remainders (with percent-encoding) x query strings,
//    x http / https: when toSubdomainURL produces a redirect, its host is
//    <label>.<ns>.<gateway host> with a label of at most 63 characters, the namespace is kept,
//    the label names the same content (same multihash for CIDs and PeerIDs, the same FQDN after
//    un-inlining for DNSLink), and remainder path and query are preserved.

import (
	"fmt"
	"net/http"
	"net/http/httptest"
	"net/url"
	"strings"
	"testing"

	"github.com/ipfs/boxo/path"
	cid "github.com/ipfs/go-cid"
	"github.com/libp2p/go-libp2p/core/peer"
)

func TestVerifBoundedC32Subdomain(t *testing.T) {
	cases, fails := 0, 0
	fail := func(format string, a ...any) {
		fails++
		if fails <= 10 {
			fmt.Printf("VERIF-FAIL C32 "+format+"\n", a...)
		}
	}
	labels := []string{"a", "ab", "a-b", "a--b", "x1", "0", "a-b-c", "9-9"}
	var names []string
	for _, a := range labels {
		names = append(names, a)
		for _, b := range labels {
			names = append(names, a+"."+b)
			for _, c := range labels {
				names = append(names, a+"."+b+"."+c)
			}
		}
	}
	names = append(names, strings.Repeat("a", 63), strings.Repeat("a", 30)+"."+strings.Repeat("b", 32), strings.Repeat("a", 31)+"."+strings.Repeat("b", 32), strings.Repeat("a-", 16)+"a.b")
	for _, n := range names {
		cases++
		in, err := InlineDNSLink(n)
		if err != nil {
			want := len(strings.ReplaceAll(strings.ReplaceAll(n, "-", "--"), ".", "-")) > 63
			if !want {
				fail("InlineDNSLink(%q) refused: %v", n, err)
			}
			continue
		}
		if len(in) > 63 || strings.Contains(in, ".") {
			fail("InlineDNSLink(%q) = %q is not a single DNS label", n, in)
		}
		if back := UninlineDNSLink(in); back != n {
			fail("UninlineDNSLink(InlineDNSLink(%q)) = %q", n, back)
		}
	}
	backend, _ := newMockBackend(t, "fixtures.car")
	testCID, _ := cid.Decode("bafkqaglimvwgy3zakrsxg5cun5jxkyten5wwc2lokvjeycq")
	dnslinks := []string{"dnslink.long-name.example.com", "en.wikipedia-on-ipfs.org", "a.b"}
	for _, d := range dnslinks {
		backend.namesys["/ipns/"+d] = newMockNamesysItem(path.FromCid(testCID), 0)
	}
	roots := []string{
		"/ipfs/QmbCMUZw6JFeZ7Wp9jkzbye3Fzp2GGcPgC3nmeUjfVF87n",
		"/ipfs/bafybeif7a7gdklt6hodwdrmwmxnhksctcuav6lfxlcyfz4khzl3qfmvcgu",
		"/ipfs/bafkrgqe3ohjcjplc6n4f3fwunlj6upltggn7xqujbsvnvyw764srszz4u4rshq6ztos4chl4plgg4ffyyxnayrtdi5oc4xb2332g645433aeg",
		"/ipns/QmY3hE8xgFCjGcz6PHgnvJz5HZi1BaKRfPkn1ghZUcYMjD",
		"/ipns/12D3KooWFB51PRY9BxcXSH6khFXw1BZeszeLDy7C8GciskqCTZn5",
		"/ipns/k51qzi5uqu5di608geewp3nqkg0bpujoasmka7ftkyxgcm3fh1aroup0gsdrna",
		"/ipns/dnslink.long-name.example.com", "/ipns/en.wikipedia-on-ipfs.org", "/ipns/a.b",
	}
	rests := []string{"", "/", "/wiki/Foo", "/a%20b/c%2Fd", "/x/", "/a%2520b.txt", "/50%25off.txt", "/q%3Fx%23y"} // the last three still hold %, ? or # once decoded
	queries := []string{"", "filename=a%20b.txt&download=true"}
	for _, root := range roots {
		for _, rest := range rests {
			for _, q := range queries {
				for _, scheme := range []string{"http", "https"} {
					for _, inline := range []bool{false, true} {
						cases++
						p := root + rest
						target := scheme + "://gw.example.net" + p
						if q != "" {
							target += "?" + q
						}
						r := httptest.NewRequest(http.MethodGet, target, nil)
						got, err := toSubdomainURL("gw.example.net", r.URL.Path, r, inline, backend)
						id := fmt.Sprintf("[%s %s inline=%v]", scheme, target, inline)
						if err != nil || got == "" {
							continue // no redirect (e.g. CID too long for a label): nothing to preserve
						}
						u, perr := url.Parse(got)
						if perr != nil {
							fail("%s: redirect %q does not parse", id, got)
							continue
						}
						parts := strings.SplitN(u.Host, ".", 3)
						ns := strings.Split(root, "/")[1]
						if len(parts) != 3 || parts[2] != "gw.example.net" || parts[1] != ns {
							// an un-inlined DNSLink name keeps its dots
							if !(ns == "ipns" && strings.HasSuffix(u.Host, ".ipns.gw.example.net")) {
								fail("%s: redirect host %q is not <label>.%s.gw.example.net", id, u.Host, ns)
								continue
							}
						}
						label := strings.TrimSuffix(u.Host, "."+ns+".gw.example.net")
						orig := strings.Split(root, "/")[2]
						// same content
						if oc, err := cid.Decode(orig); err == nil {
							nc, err := cid.Decode(label)
							if err != nil || string(nc.Hash()) != string(oc.Hash()) {
								fail("%s: label %q does not name the multihash of %q", id, label, orig)
							}
							if len(label) > 63 {
								fail("%s: label %q is longer than 63 characters", id, label)
							}
						} else if pid, err := peer.Decode(orig); err == nil {
							nc, err := cid.Decode(label)
							if err != nil || string(nc.Hash()) != string(peer.ToCid(pid).Hash()) {
								fail("%s: label %q does not name the peer %q", id, label, orig)
							}
							if len(label) > 63 {
								fail("%s: label %q is longer than 63 characters", id, label)
							}
						} else {
							back := label
							if !strings.Contains(label, ".") {
								back = UninlineDNSLink(label)
								if len(label) > 63 {
									fail("%s: inlined label %q is longer than 63 characters", id, label)
								}
							}
							if back != orig {
								fail("%s: label %q stands for %q, the request named %q", id, label, back, orig)
							}
						}
						// the handler works on the decoded request path: compare decoded remainders
						wantPath, _ := url.PathUnescape(rest)
						if wantPath == "" {
							wantPath = "/"
						}
						if u.Path != wantPath && "/"+strings.TrimPrefix(u.Path, "/") != wantPath {
							fail("%s: remainder %q became %q", id, wantPath, u.Path)
						}
						if u.RawQuery != q {
							fail("%s: query %q became %q", id, q, u.RawQuery)
						}
						if (scheme == "https") != (u.Scheme == "https") {
							fail("%s: scheme became %s", id, u.Scheme)
						}
					}
				}
			}
		}
	}
	fmt.Printf("BOUNDED-STATS {\"cases\":%d,\"failures\":%d}\n", cases, fails)
	if fails > 0 {
		t.Fail()
	}
}
