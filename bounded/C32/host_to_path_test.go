package gateway

// Bounded stand-in for property C32, host-to-path direction (labelled bounded; never counted as
// proved): the hostname handler is run over requests that differ in Host, X-Forwarded-Host (absent,
// equal, different: a reverse proxy), port, path remainder and query, against a gateway that knows
// "gw.example.net" (subdomains on) and DNSLink names. What the next handler receives must name the
// content the client asked for:
//   - a DNSLink host (taken from X-Forwarded-Host when a proxy set it) becomes /ipns/<that name
//     without port><path>, query untouched;
//   - a subdomain host <cid>.ipfs.gw.example.net or <name>.ipns.gw.example.net becomes
//     /<ns>/<cid or un-inlined name><path>;
//   - a host that is neither is passed on unchanged or refused.

import (
	"fmt"
	"net/http"
	"net/http/httptest"
	"net/url"
	"testing"

	"github.com/ipfs/boxo/path"
	cid "github.com/ipfs/go-cid"
)

func TestVerifBoundedC32HostToPath(t *testing.T) {
	backend, _ := newMockBackend(t, "fixtures.car")
	testCID, _ := cid.Decode("bafkqaglimvwgy3zakrsxg5cun5jxkyten5wwc2lokvjeycq")
	dnslinks := []string{"dnslink.example.org", "en.wikipedia-on-ipfs.org", "a-b.c--d.example.com"}
	for _, d := range dnslinks {
		backend.namesys["/ipns/"+d] = newMockNamesysItem(path.FromCid(testCID), 0)
	}
	cfg := Config{PublicGateways: map[string]*PublicGateway{
		"gw.example.net": {Paths: []string{"/ipfs", "/ipns"}, UseSubdomains: true, InlineDNSLink: true, DeserializedResponses: true},
	}}
	var gotPath, gotQuery string
	called := false
	next := http.HandlerFunc(func(w http.ResponseWriter, r *http.Request) {
		called, gotPath, gotQuery = true, r.URL.Path, r.URL.RawQuery
	})
	h := NewHostnameHandler(cfg, backend, next)
	cases, fails := 0, 0
	fail := func(format string, a ...any) {
		fails++
		if fails <= 10 {
			fmt.Printf("VERIF-FAIL C32 "+format+"\n", a...)
		}
	}
	run := func(host, xfh, p, q string) (bool, string, string, int) {
		target := "http://" + host + (&url.URL{Path: p}).EscapedPath()
		if q != "" {
			target += "?" + q
		}
		r := httptest.NewRequest(http.MethodGet, target, nil)
		r.Host = host
		if xfh != "" {
			r.Header.Set("X-Forwarded-Host", xfh)
		}
		called = false
		w := httptest.NewRecorder()
		h.ServeHTTP(w, r)
		return called, gotPath, gotQuery, w.Code
	}
	rests := []string{"/", "/wiki/Foo", "/a b/c", "/x/"}
	queries := []string{"", "filename=a%20b.txt"}
	upstreams := []string{"", "gateway-upstream", "127.0.0.1:8080", "other.example.org"}
	for _, name := range dnslinks {
		for _, port := range []string{"", ":8080"} {
			for _, up := range upstreams {
				for _, rest := range rests {
					for _, q := range queries {
						cases++
						// the client's Host reaches the handler either directly or as X-Forwarded-Host
						host, xfh := name+port, ""
						if up != "" {
							host, xfh = up, name+port
						}
						ok, p, gq, code := run(host, xfh, rest, q)
						id := fmt.Sprintf("[Host %q X-Forwarded-Host %q %s?%s]", host, xfh, rest, q)
						if !ok {
							fail("%s: DNSLink request not passed on (status %d)", id, code)
							continue
						}
						if want := "/ipns/" + name + rest; p != want {
							fail("%s: the next handler got path %q, the request names %q", id, p, want)
						}
						if gq != q {
							fail("%s: query %q became %q", id, q, gq)
						}
					}
				}
			}
		}
	}
	// subdomain hosts; also DNSLink names that are one label with a hyphen (no dot): the label
	// "my-site" reads like an inlined "my.site", which has no record - the host names "my-site"
	singles := []string{"my-site", "a-b-c"}
	for _, d := range singles {
		backend.namesys["/ipns/"+d] = newMockNamesysItem(path.FromCid(testCID), 0)
	}
	v1 := "bafybeif7a7gdklt6hodwdrmwmxnhksctcuav6lfxlcyfz4khzl3qfmvcgu"
	for _, name := range append(append([]string{}, dnslinks...), singles...) {
		inl, err := InlineDNSLink(name)
		if err != nil {
			t.Fatal(err)
		}
		for _, sub := range []struct{ label, ns, want string }{{v1, "ipfs", v1}, {inl, "ipns", name}, {name, "ipns", name}} {
			for _, up := range []string{"", "gateway-upstream"} {
				for _, rest := range rests {
					cases++
					client := sub.label + "." + sub.ns + ".gw.example.net"
					host, xfh := client, ""
					if up != "" {
						host, xfh = up, client
					}
					ok, p, _, code := run(host, xfh, rest, "")
					id := fmt.Sprintf("[Host %q X-Forwarded-Host %q %s]", host, xfh, rest)
					if !ok {
						if code >= 300 && code < 400 {
							continue // redirected to the canonical subdomain form: covered by the redirect run
						}
						fail("%s: subdomain request not passed on (status %d)", id, code)
						continue
					}
					if want := "/" + sub.ns + "/" + sub.want + rest; p != want {
						fail("%s: the next handler got path %q, the host names %q", id, p, want)
					}
				}
			}
		}
	}
	fmt.Printf("BOUNDED-STATS {\"cases\":%d,\"failures\":%d,\"bound\":\"3 DNSLink names (+2 single-label hyphenated names as subdomain hosts) x ports x 4 upstream hosts x 4 remainders x 2 queries; subdomain hosts for a CID and for each name inlined and plain, direct and proxied\"}\n", cases, fails)
	if fails > 0 {
		t.Fail()
	}
}
