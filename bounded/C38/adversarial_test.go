package tar

// Bounded stand-in for property C38 (labelled bounded; never counted as proved):
// a corpus of adversarial and ordinary archives, and every archive made of the root directory
// followed by up to 3 entries (thorough: also every 7th sequence of 4) drawn from an alphabet of directories, files, symlinks (pointing
// inside, outside, absolute), '..'/absolute/empty components and replacements of earlier
// entries by another kind, is extracted into <base>/target/out. Around the target there is a
// sentinel tree (<base>/outside with a file and a directory of known content, mode and mtime).
// After every extraction, successful or not, the sentinel tree must be unchanged (names,
// contents, permissions, modification times) and nothing may exist in <base> but the sentinel
// tree and the target.

import (
	"archive/tar"
	"bytes"
	"fmt"
	"os"
	"path/filepath"
	"sort"
	"testing"
	"time"
)

type verifC38Entry struct {
	name string
	typ  byte
	link string
	mode int64
	data string
}

func verifC38Archive(es []verifC38Entry) []byte {
	var buf bytes.Buffer
	w := tar.NewWriter(&buf)
	for _, e := range es {
		h := &tar.Header{Name: e.name, Typeflag: e.typ, Linkname: e.link, Mode: e.mode, Size: int64(len(e.data)), ModTime: time.Unix(1600000000, 0)}
		if err := w.WriteHeader(h); err != nil {
			panic(err)
		}
		if e.typ == tar.TypeReg {
			w.Write([]byte(e.data))
		}
	}
	w.Close()
	return buf.Bytes()
}

func verifC38Snapshot(root string) string {
	var out []string
	filepath.Walk(root, func(p string, info os.FileInfo, err error) error {
		if err != nil {
			out = append(out, p+": "+err.Error())
			return nil
		}
		rel, _ := filepath.Rel(root, p)
		line := fmt.Sprintf("%s mode=%v mtime=%d", rel, info.Mode(), info.ModTime().Unix())
		if info.Mode().IsRegular() {
			b, _ := os.ReadFile(p)
			line += fmt.Sprintf(" data=%q", b)
		}
		if info.Mode()&os.ModeSymlink != 0 {
			l, _ := os.Readlink(p)
			line += " -> " + l
		}
		out = append(out, line)
		return nil
	})
	sort.Strings(out)
	return fmt.Sprint(out)
}

func TestVerifBoundedC38Adversarial(t *testing.T) {
	dir, file, sym := byte(tar.TypeDir), byte(tar.TypeReg), byte(tar.TypeSymlink)
	alphabet := []verifC38Entry{
		{"r/d", dir, "", 0o777, ""}, {"r/d", sym, "../../outside/vdir", 0o777, ""}, {"r/d", sym, "../../outside/victim", 0, ""},
		{"r/d", file, "", 0o777, "new"}, {"r/d/f", file, "", 0o666, "inner"}, {"r/d/e", dir, "", 0o777, ""},
		{"r/l", sym, "../../outside", 0, ""}, {"r/l/x", file, "", 0o644, "via-link"}, {"r/l/vdir", dir, "", 0o777, ""}, {"r/l/n/m/f", file, "", 0o644, "deep-below-link"}, {"r/d/n/m/f", file, "", 0o644, "deep"},
		{"r/abs", sym, "/etc", 0, ""}, {"r/abs/x", file, "", 0o644, "x"},
		{"r/../escape", file, "", 0o644, "e"}, {"/abs", file, "", 0o644, "a"}, {"r//double", file, "", 0o644, "d"}, {"r/./dot", file, "", 0o644, "d"},
		{"other/x", file, "", 0o644, "x"}, {"r", sym, "../outside", 0, ""}, {"r/s", sym, "d", 0, ""}, {"r/s/f", file, "", 0o644, "through-inner-link"},
	}
	var archives [][]verifC38Entry
	rootDir := verifC38Entry{"r", dir, "", 0o755, ""}
	archives = append(archives, []verifC38Entry{{"r", file, "", 0o644, "single"}}, []verifC38Entry{{"r", sym, "../outside/victim", 0, ""}}, []verifC38Entry{rootDir})
	for a := range alphabet {
		archives = append(archives, []verifC38Entry{rootDir, alphabet[a]})
		for b := range alphabet {
			archives = append(archives, []verifC38Entry{rootDir, alphabet[a], alphabet[b]})
			for c := range alphabet {
				archives = append(archives, []verifC38Entry{rootDir, alphabet[a], alphabet[b], alphabet[c]})
				if os.Getenv("VERIF_TIER") == "thorough" {
					for d := range alphabet {
						if (a+b+c+d)%7 == 0 {
							archives = append(archives, []verifC38Entry{rootDir, alphabet[a], alphabet[b], alphabet[c], alphabet[d]})
						}
					}
				}
			}
		}
	}
	cases, fails := 0, 0
	for _, preexisting := range []bool{false, true} {
		for _, ar := range archives {
			cases++
			base := t.TempDir()
			outside := filepath.Join(base, "outside")
			// (the objects below vdir carry the names archive entries use below r/d, so that a path
			// that resolves through a link put in place of r/d lands on something that exists)
			os.MkdirAll(filepath.Join(outside, "vdir", "e"), 0o700)
			os.WriteFile(filepath.Join(outside, "vdir", "f"), []byte("secret too"), 0o600)
			os.WriteFile(filepath.Join(outside, "victim"), []byte("secret"), 0o600)
			old := time.Unix(1500000000, 0)
			for _, p := range []string{filepath.Join(outside, "victim"), filepath.Join(outside, "vdir", "e"), filepath.Join(outside, "vdir", "f"), filepath.Join(outside, "vdir"), outside} {
				os.Chtimes(p, old, old)
			}
			os.Chmod(filepath.Join(outside, "vdir"), 0o700)
			os.Chmod(filepath.Join(outside, "vdir", "e"), 0o700)
			before := verifC38Snapshot(outside)
			target := filepath.Join(base, "target")
			os.MkdirAll(target, 0o755)
			out := filepath.Join(target, "out")
			if preexisting {
				os.MkdirAll(out, 0o755)
			}
			e := &Extractor{Path: out}
			err := e.Extract(bytes.NewReader(verifC38Archive(ar)))
			after := verifC38Snapshot(outside)
			var names []string
			for _, x := range ar {
				names = append(names, fmt.Sprintf("%s[%c %s]", x.name, x.typ, x.link))
			}
			bad := ""
			if before != after {
				bad = fmt.Sprintf("objects outside the target changed:\n   before %s\n   after  %s", before, after)
			}
			ents, _ := os.ReadDir(base)
			for _, en := range ents {
				if en.Name() != "outside" && en.Name() != "target" {
					bad = "created " + en.Name() + " next to the target"
				}
			}
			if bad != "" {
				fails++
				if fails <= 8 {
					fmt.Printf("VERIF-FAIL C38 archive %v (out exists: %v, Extract err: %v): %s\n", names, preexisting, err, bad)
				}
			}
		}
	}
	fmt.Printf("BOUNDED-STATS {\"cases\":%d,\"failures\":%d,\"bound\":\"root directory + up to 3 entries (thorough: and every 7th sequence of 4) over an alphabet of %d adversarial/ordinary entries, target existing or not\"}\n", cases, fails, len(alphabet))
	if fails > 0 {
		t.Fail()
	}
}
