package trickle

// Bounded stand-in for property C08 (labelled bounded; never counted as proved):
// for DAG widths 2..4 (thorough: 2..6), both leaf kinds, every base length of
// 0..B chunks (plus a ragged tail) and every appended length of 1..A chunks
// (plus a ragged tail): build the base with Layout, Append, then
//   - the appended file reads back as base ++ extra,
//   - every internal node's recorded size is the sum of its blocksizes and each
//     blocksize is the child's content length,
//   - VerifyTrickleDagStructure accepts it for the same width,
// Informational only (counted, never a failure): when the base is chunk-aligned,
// whether the root equals the root Layout builds for base ++ extra. Append leaves
// a partially filled sub-tree behind in some shapes; the structure checker and
// the property accept that.

import (
	"bytes"
	"context"
	"fmt"
	"io"
	"os"
	"testing"

	chunker "github.com/ipfs/boxo/chunker"
	mdag "github.com/ipfs/boxo/ipld/merkledag"
	mdtest "github.com/ipfs/boxo/ipld/merkledag/test"
	ft "github.com/ipfs/boxo/ipld/unixfs"
	h "github.com/ipfs/boxo/ipld/unixfs/importer/helpers"
	uio "github.com/ipfs/boxo/ipld/unixfs/io"
	ipld "github.com/ipfs/go-ipld-format"
)

func verifC08Sizes(ctx context.Context, ds ipld.DAGService, n ipld.Node) (uint64, error) {
	switch nd := n.(type) {
	case *mdag.RawNode:
		return uint64(len(nd.RawData())), nil
	case *mdag.ProtoNode:
		fsn, err := ft.FSNodeFromBytes(nd.Data())
		if err != nil {
			return 0, err
		}
		if len(nd.Links()) == 0 {
			if fsn.FileSize() != uint64(len(fsn.Data())) {
				return 0, fmt.Errorf("leaf filesize %d != data %d", fsn.FileSize(), len(fsn.Data()))
			}
			return fsn.FileSize(), nil
		}
		if fsn.NumChildren() != len(nd.Links()) {
			return 0, fmt.Errorf("%d blocksizes for %d links", fsn.NumChildren(), len(nd.Links()))
		}
		var sum uint64
		for i, l := range nd.Links() {
			c, err := l.GetNode(ctx, ds)
			if err != nil {
				return 0, err
			}
			cs, err := verifC08Sizes(ctx, ds, c)
			if err != nil {
				return 0, err
			}
			if fsn.BlockSize(i) != cs {
				return 0, fmt.Errorf("blocksize[%d]=%d but child content is %d", i, fsn.BlockSize(i), cs)
			}
			sum += cs
		}
		if fsn.FileSize() != sum {
			return 0, fmt.Errorf("filesize %d != sum of children %d", fsn.FileSize(), sum)
		}
		return sum, nil
	}
	return 0, fmt.Errorf("unexpected node type %T", n)
}

func TestVerifBoundedC08Append(t *testing.T) {
	ctx := context.Background()
	const chunk = 4
	maxW, maxBase, maxExtra := 4, 40, 24
	if os.Getenv("VERIF_TIER") == "thorough" {
		maxW, maxBase, maxExtra = 6, 90, 60
	}
	data := make([]byte, (maxBase+maxExtra+2)*chunk)
	for i := range data {
		data[i] = byte(i*7 + i/251)
	}
	cases, fails, noncanon := 0, 0, 0
	for w := 2; w <= maxW; w++ {
		for _, raw := range []bool{false, true} {
			for _, ragged := range []int{0, 1} {
				for bl := 0; bl <= maxBase; bl++ {
					baseLen := bl * chunk
					if bl > 0 && ragged == 1 {
						baseLen -= 1
					}
					for el := 1; el <= maxExtra; el += 1 + el/8 {
						extraLen := el*chunk - ragged
						cases++
						dserv := mdtest.Mock()
						dbp := h.DagBuilderParams{Dagserv: dserv, Maxlinks: w, RawLeaves: raw}
						db, err := dbp.New(chunker.NewSizeSplitter(bytes.NewReader(data[:baseLen]), chunk))
						if err != nil {
							t.Fatal(err)
						}
						base, err := Layout(db)
						if err != nil {
							t.Fatal(err)
						}
						db2, _ := dbp.New(chunker.NewSizeSplitter(bytes.NewReader(data[baseLen:baseLen+extraLen]), chunk))
						out, err := Append(ctx, base, db2)
						id := fmt.Sprintf("width=%d raw=%v base=%d extra=%d", w, raw, baseLen, extraLen)
						fail := func(what string) {
							fails++
							if fails <= 12 {
								fmt.Printf("VERIF-FAIL C08 %s: %s\n", id, what)
							}
						}
						if err != nil {
							fail("Append error: " + err.Error())
							continue
						}
						rd, err := uio.NewDagReader(ctx, out, dserv)
						if err != nil {
							fail("reader: " + err.Error())
							continue
						}
						got, err := io.ReadAll(rd)
						if err != nil || !bytes.Equal(got, data[:baseLen+extraLen]) {
							fail(fmt.Sprintf("content differs (read %d bytes, err=%v)", len(got), err))
							continue
						}
						if sz, err := verifC08Sizes(ctx, dserv, out); err != nil {
							fail("sizes: " + err.Error())
							continue
						} else if sz != uint64(baseLen+extraLen) {
							fail(fmt.Sprintf("root size %d", sz))
							continue
						}
						if err := VerifyTrickleDagStructure(out, VerifyParams{Getter: dserv, Direct: w, LayerRepeat: depthRepeat, RawLeaves: raw}); err != nil {
							fail("structure: " + err.Error())
							continue
						}
						if baseLen%chunk == 0 {
							db3, _ := dbp.New(chunker.NewSizeSplitter(bytes.NewReader(data[:baseLen+extraLen]), chunk))
							want, err := Layout(db3)
							if err != nil {
								t.Fatal(err)
							}
							if !want.Cid().Equals(out.Cid()) {
								noncanon++
							}
						}
					}
				}
			}
		}
	}
	fmt.Printf("BOUNDED-STATS {\"cases\":%d,\"failures\":%d,\"not_canonical_informational\":%d,\"bound\":\"widths 2..%d, base 0..%d chunks, extra 1..%d chunks of %d bytes, aligned and ragged, raw and dag-pb leaves\"}\n", cases, fails, noncanon, maxW, maxBase, maxExtra, chunk)
	if fails > 0 {
		t.Fail()
	}
}
