package io

// Bounded stand-in for property C09 (labelled bounded; never counted as proved):
// every operation sequence up to length 3 (thorough: 4) over Read/CtxReadFull with
// several buffer sizes, Seek with all three whence values (including negative and
// past-the-end targets) and WriteTo is run against a DagReader and a bytes.Reader
// over the same content, for files of 0..13 bytes split in chunks of 3 with DAG
// width 2 (balanced and trickle layout, raw and protobuf leaves); returned bytes,
// offsets and io.EOF must agree.

import (
	"bytes"
	"context"
	"fmt"
	"io"
	"os"
	"testing"

	chunker "github.com/ipfs/boxo/chunker"
	"github.com/ipfs/boxo/ipld/unixfs/importer/balanced"
	h "github.com/ipfs/boxo/ipld/unixfs/importer/helpers"
	"github.com/ipfs/boxo/ipld/unixfs/importer/trickle"
	testu "github.com/ipfs/boxo/ipld/unixfs/test"
	ipld "github.com/ipfs/go-ipld-format"
)

type verifROp struct {
	kind   string
	n      int
	off    int64
	whence int
}

func TestVerifBoundedC09Reader(t *testing.T) {
	ctx := context.Background()
	dserv := testu.GetDAGServ()
	build := func(data []byte, trickleLayout, raw bool) ipld.Node {
		dbp := h.DagBuilderParams{Dagserv: dserv, Maxlinks: 2, RawLeaves: raw}
		db, err := dbp.New(chunker.NewSizeSplitter(bytes.NewReader(data), 3))
		if err != nil {
			t.Fatal(err)
		}
		var nd ipld.Node
		if trickleLayout {
			nd, err = trickle.Layout(db)
		} else {
			nd, err = balanced.Layout(db)
		}
		if err != nil {
			t.Fatal(err)
		}
		return nd
	}
	alphabet := []verifROp{
		{kind: "read", n: 0}, {kind: "read", n: 1}, {kind: "read", n: 4}, {kind: "read", n: 50},
		{kind: "full", n: 2}, {kind: "full", n: 7},
		{kind: "seek", off: 0, whence: io.SeekStart}, {kind: "seek", off: 4, whence: io.SeekStart}, {kind: "seek", off: 20, whence: io.SeekStart}, {kind: "seek", off: -1, whence: io.SeekStart},
		{kind: "seek", off: 2, whence: io.SeekCurrent}, {kind: "seek", off: -2, whence: io.SeekCurrent}, {kind: "seek", off: 0, whence: io.SeekCurrent},
		{kind: "seek", off: 0, whence: io.SeekEnd}, {kind: "seek", off: -3, whence: io.SeekEnd}, {kind: "seek", off: 2, whence: io.SeekEnd}, {kind: "seek", off: -30, whence: io.SeekEnd},
		{kind: "writeto"},
	}
	maxLen := 3
	if os.Getenv("VERIF_TIER") == "thorough" {
		maxLen = 4
	}
	evals := 0
	run := func(nd ipld.Node, data []byte, desc string, seq []verifROp) bool {
		evals++
		dr, err := NewDagReader(ctx, nd, dserv)
		if err != nil {
			t.Fatal(err)
		}
		br := bytes.NewReader(data)
		for i, o := range seq {
			switch o.kind {
			case "read", "full":
				b1, b2 := make([]byte, o.n), make([]byte, o.n)
				var n1, n2 int
				var e1, e2 error
				if o.kind == "read" {
					// Read may return short counts: compare the concatenation up to n
					n1, e1 = io.ReadFull(dr, b1)
					n2, e2 = io.ReadFull(br, b2)
				} else {
					// a per-call context, cancelled once the call has returned (as request
					// contexts are): nothing later may depend on it
					cctx, cancel := context.WithCancel(ctx)
					n1, e1 = dr.CtxReadFull(cctx, b1)
					cancel()
					n2, e2 = io.ReadFull(br, b2)
					if e2 == io.ErrUnexpectedEOF {
						e2 = io.EOF // CtxReadFull reports a short read as EOF
					}
					if e1 == io.ErrUnexpectedEOF {
						e1 = io.EOF
					}
				}
				if n1 != n2 || !bytes.Equal(b1[:n1], b2[:n2]) || (e1 == nil) != (e2 == nil) {
					t.Errorf("VERIF-FAIL C09: %s ops=%v step %d: read %d %q (%v), bytes.Reader %d %q (%v)", desc, seq, i, n1, b1[:n1], e1, n2, b2[:n2], e2)
					return false
				}
			case "seek":
				p1, e1 := dr.Seek(o.off, o.whence)
				p2, e2 := br.Seek(o.off, o.whence)
				if (e1 == nil) != (e2 == nil) || (e1 == nil && p1 != p2) {
					t.Errorf("VERIF-FAIL C09: %s ops=%v step %d: Seek(%d,%d) = %d (%v), bytes.Reader %d (%v)", desc, seq, i, o.off, o.whence, p1, e1, p2, e2)
					return false
				}
			case "writeto":
				var w1, w2 bytes.Buffer
				n1, e1 := dr.WriteTo(&w1)
				n2, e2 := br.WriteTo(&w2)
				if n1 != n2 || !bytes.Equal(w1.Bytes(), w2.Bytes()) || (e1 == nil) != (e2 == nil) {
					t.Errorf("VERIF-FAIL C09: %s ops=%v step %d: WriteTo wrote %d %q (%v), bytes.Reader %d %q (%v)", desc, seq, i, n1, w1.Bytes(), e1, n2, w2.Bytes(), e2)
					return false
				}
			}
		}
		return true
	}
	for _, size := range []int{0, 1, 3, 7, 13} {
		data := make([]byte, size)
		for i := range data {
			data[i] = byte('a' + i)
		}
		for _, tl := range []bool{false, true} {
			for _, raw := range []bool{false, true} {
				nd := build(data, tl, raw)
				desc := fmt.Sprintf("size=%d trickle=%v raw=%v", size, tl, raw)
				var rec func(seq []verifROp) bool
				rec = func(seq []verifROp) bool {
					if len(seq) == maxLen {
						return run(nd, data, desc, seq)
					}
					for _, o := range alphabet {
						if !rec(append(append([]verifROp{}, seq...), o)) {
							return false
						}
					}
					return true
				}
				if !rec(nil) {
					fmt.Printf("BOUNDED-STATS {\"evaluations\": %d, \"distinct\": %d}\n", evals, evals)
					return
				}
			}
		}
	}
	fmt.Printf("BOUNDED-STATS {\"evaluations\": %d, \"distinct\": %d}\n", evals, evals)
}
