package keystore

// Bounded stand-in for property C40 (labelled bounded; never counted as proved):
// every sequence of 3 operations (thorough: 4) of put / delete over a set of
// awkward key names ("..", "a/b", "../x", "A" vs "a", a name with NUL and unicode, a
// long name) runs against the filesystem keystore, the in-memory keystore and a map;
// Has, Get and List must agree after every step, and the directory tree around the
// keystore directory must contain nothing but encoded key files inside it. Every third history
// runs in a directory that also holds files that are not key files (no prefix but valid
// base32, undecodable, unrelated): they must stay invisible.

import (
	"crypto/rand"
	"fmt"
	"os"
	"path/filepath"
	"sort"
	"strings"
	"testing"

	ci "github.com/libp2p/go-libp2p/core/crypto"
)

func TestVerifBoundedC40KeystoreModel(t *testing.T) {
	names := []string{"a", "A", "..", "a/b", "../x", "k\x00ü", strings.Repeat("n", 70), "Self", "Peer", "élan", "raw\xff\xfebytes", "\xc3"}
	if os.Getenv("VERIF_TIER") == "thorough" {
		// sequences of 4: the two plain names "Self" and "Peer" (nothing awkward about them, they
		// stay in the quick run of sequences of 3) are left out to keep the run inside its time limit
		names = append(names[:7:7], names[9:]...)
	}
	var keys []ci.PrivKey
	for range 2 {
		k, _, err := ci.GenerateEd25519Key(rand.Reader)
		if err != nil {
			t.Fatal(err)
		}
		keys = append(keys, k)
	}
	type op struct {
		kind string
		name string
		key  int
	}
	var ops []op
	for _, n := range names {
		ops = append(ops, op{"put", n, 0}, op{"del", n, 0})
	}
	ops = append(ops, op{"put", "a", 1}, op{"put", "", 0}, op{"del", "", 0})
	seqLen, stride := 3, 1
	if os.Getenv("VERIF_TIER") == "thorough" {
		seqLen, stride = 4, 1
	}
	total := 1
	for i := 0; i < seqLen; i++ {
		total *= len(ops)
	}
	cases, fails := 0, 0
	for idx := 0; idx < total; idx += stride {
		cases++
		base := t.TempDir()
		sentinel := filepath.Join(base, "outside")
		if err := os.WriteFile(sentinel, []byte("s"), 0o600); err != nil {
			t.Fatal(err)
		}
		dir := filepath.Join(base, "sub", "ks")
		if err := os.MkdirAll(filepath.Dir(dir), 0o700); err != nil {
			t.Fatal(err)
		}
		fsks, err := NewFSKeystore(dir)
		if err != nil {
			t.Fatal(err)
		}
		// every third history runs in a directory that also holds files that are not keys:
		// a name without the key prefix that happens to be valid base32 (of "bar"), in both
		// cases, a prefixed name that does not decode, and an unrelated file. They are not
		// part of the map: List must not report them and Has/Get must not find them.
		strays := map[string]bool{}
		if idx%3 == 1 {
			for _, n := range []string{"mjqxe", "MJQXE", keyFilenamePrefix + "!!!", "notes.txt"} {
				if err := os.WriteFile(filepath.Join(dir, n), []byte("x"), 0o600); err != nil {
					t.Fatal(err)
				}
				strays[n] = true
			}
		}
		mem := NewMemKeystore()
		model := map[string]int{}
		var trace []string
		bad := ""
		for i, k := 0, idx; i < seqLen && bad == ""; i++ {
			o := ops[k%len(ops)]
			k /= len(ops)
			trace = append(trace, fmt.Sprintf("%s(%q)", o.kind, o.name))
			var e1, e2 error
			_, exists := model[o.name]
			switch o.kind {
			case "put":
				e1, e2 = fsks.Put(o.name, keys[o.key]), mem.Put(o.name, keys[o.key])
				wantErr := exists || o.name == ""
				if (e1 != nil) != wantErr || (e2 != nil) != wantErr {
					bad = fmt.Sprintf("step %d: Put errors fs=%v mem=%v, model expects error=%v", i, e1, e2, wantErr)
				}
				if !wantErr {
					model[o.name] = o.key
				}
			case "del":
				e1, e2 = fsks.Delete(o.name), mem.Delete(o.name)
				// deleting a missing key: the filesystem keystore reports an error, the
				// in-memory one does not (observed difference in the error only; the
				// property is about the map the two keystores represent, which agrees)
				if exists && (e1 != nil || e2 != nil) {
					bad = fmt.Sprintf("step %d: Delete of an existing key failed: fs=%v mem=%v", i, e1, e2)
				}
				delete(model, o.name)
			}
			if bad != "" {
				break
			}
			if len(strays) > 0 {
				if h, _ := fsks.Has("bar"); h {
					bad = fmt.Sprintf("step %d: Has(\"bar\") is true because of a file that is not a key file", i)
					break
				}
			}
			for _, n := range names {
				want, ok := model[n]
				h1, _ := fsks.Has(n)
				h2, _ := mem.Has(n)
				if h1 != ok || h2 != ok {
					bad = fmt.Sprintf("step %d: Has(%q) fs=%v mem=%v model=%v", i, n, h1, h2, ok)
					break
				}
				g, gerr := fsks.Get(n)
				if ok && (gerr != nil || !g.Equals(keys[want])) {
					bad = fmt.Sprintf("step %d: Get(%q) err=%v or wrong key", i, n, gerr)
					break
				}
				if !ok && gerr != ErrNoSuchKey {
					bad = fmt.Sprintf("step %d: Get(%q) of a missing key: %v", i, n, gerr)
					break
				}
			}
			l1, err := fsks.List()
			if err != nil {
				bad = err.Error()
				break
			}
			var want []string
			for n := range model {
				want = append(want, n)
			}
			sort.Strings(l1)
			sort.Strings(want)
			if fmt.Sprint(l1) != fmt.Sprint(want) {
				bad = fmt.Sprintf("step %d: List %q, model %q", i, l1, want)
			}
		}
		// confinement: nothing but key files inside dir, nothing new around it
		if bad == "" {
			var seen []string
			filepath.Walk(base, func(p string, info os.FileInfo, err error) error {
				rel, _ := filepath.Rel(base, p)
				seen = append(seen, rel)
				return nil
			})
			for _, rel := range seen {
				switch {
				case rel == ".", rel == "outside", rel == "sub", rel == filepath.Join("sub", "ks"):
				case filepath.Dir(rel) == filepath.Join("sub", "ks") && strings.HasPrefix(filepath.Base(rel), keyFilenamePrefix):
				case filepath.Dir(rel) == filepath.Join("sub", "ks") && strays[filepath.Base(rel)]:
				default:
					bad = "file system object outside the keystore directory or with a foreign name: " + rel
				}
			}
			if b, err := os.ReadFile(sentinel); err != nil || string(b) != "s" {
				bad = "file outside the keystore was touched"
			}
		}
		if bad != "" {
			fails++
			if fails <= 10 {
				fmt.Printf("VERIF-FAIL C40 %v: %s\n", trace, bad)
			}
		}
	}
	fmt.Printf("BOUNDED-STATS {\"cases\":%d,\"failures\":%d,\"bound\":\"%d operations over 7 awkward names, sequences of length %d (every %d-th)\"}\n", cases, fails, len(ops), seqLen, stride)
	if fails > 0 {
		t.Fail()
	}
}
