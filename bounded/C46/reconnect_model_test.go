package peering

// Bounded stand-in for property C46 (labelled bounded; never counted as proved; timing based with
// generous limits: "keeps trying" = 3 further dials within 5 s at a backoff forced down to ~2 ms,
// "stopped" = no dial during 40 ms after the last dial in flight returned): a running service with one
// peer that is never reachable (every dial fails, nobody is ever connected) goes through every sequence of
// 3 events out of {AddPeer again with the same addresses, AddPeer with other addresses, RemovePeer,
// AddPeer after a removal}. After every event: if the peer is a peering peer it is disconnected, so dials
// must keep coming (and use the addresses given last); if it has been removed, no dial may follow. After
// the final Stop no dial may follow either, whatever came before.

import (
	"context"
	"errors"
	"fmt"
	"sync"
	"testing"
	"time"

	"github.com/libp2p/go-libp2p/core/connmgr"
	"github.com/libp2p/go-libp2p/core/host"
	"github.com/libp2p/go-libp2p/core/network"
	"github.com/libp2p/go-libp2p/core/peer"
	"github.com/multiformats/go-multiaddr"
)

type verifC46Net struct{ network.Network }

func (n *verifC46Net) Connectedness(peer.ID) network.Connectedness { return network.NotConnected }
func (n *verifC46Net) Notify(network.Notifiee)                     {}
func (n *verifC46Net) StopNotify(network.Notifiee)                 {}

type verifC46Host struct {
	host.Host
	mu       sync.Mutex
	dials    [][]multiaddr.Multiaddr
	inFlight int
	onDial   func()
}

func (h *verifC46Host) Network() network.Network        { return &verifC46Net{} }
func (h *verifC46Host) ConnManager() connmgr.ConnManager { return connmgr.NullConnMgr{} }
func (h *verifC46Host) Connect(_ context.Context, pi peer.AddrInfo) error {
	h.mu.Lock()
	h.dials = append(h.dials, pi.Addrs)
	h.inFlight++
	f := h.onDial
	h.mu.Unlock()
	if f != nil {
		f()
	}
	h.mu.Lock()
	h.inFlight--
	h.mu.Unlock()
	return errors.New("dial refused")
}
func (h *verifC46Host) count() (int, int) {
	h.mu.Lock()
	defer h.mu.Unlock()
	return len(h.dials), h.inFlight
}

func TestVerifBoundedC46ReconnectModel(t *testing.T) {
	addrs := [][]multiaddr.Multiaddr{{multiaddr.StringCast("/ip4/127.0.0.1/tcp/4001")}, {multiaddr.StringCast("/ip4/127.0.0.1/tcp/4002")}}
	events := []string{"add-same", "add-other", "remove", "add-after"}
	p := peer.ID("verif-c46-peer")
	waitFor := func(cond func() bool, d time.Duration) bool {
		deadline := time.Now().Add(d)
		for time.Now().Before(deadline) {
			if cond() {
				return true
			}
			time.Sleep(time.Millisecond)
		}
		return cond()
	}
	cases, fails := 0, 0
	for n := 0; n < len(events)*len(events)*len(events); n++ {
		cases++
		h := &verifC46Host{}
		ps := NewPeeringService(h)
		cur := 0
		ps.AddPeer(peer.AddrInfo{ID: p, Addrs: addrs[cur]})
		shrinkAll := func() {
			ps.mu.RLock()
			ph := ps.peers[p]
			ps.mu.RUnlock()
			if ph != nil {
				ph.mu.Lock()
				ph.nextDelay = time.Millisecond
				ph.mu.Unlock()
			}
		}
		shrinkAll()
		h.mu.Lock()
		h.onDial = shrinkAll
		h.mu.Unlock()
		if err := ps.Start(); err != nil {
			t.Fatal(err)
		}
		present := true
		var trace []string
		bad := ""
		keepsTrying := func(what string) {
			c0, _ := h.count()
			if !waitFor(func() bool { c, _ := h.count(); return c >= c0+3 }, 5*time.Second) {
				c, _ := h.count()
				bad = fmt.Sprintf("%s: the peer is a disconnected peering peer and the service runs, but only %d dial(s) followed in 5 s", what, c-c0)
				return
			}
			h.mu.Lock()
			last := h.dials[len(h.dials)-1]
			h.mu.Unlock()
			if len(last) != 1 || !last[0].Equal(addrs[cur][0]) {
				bad = fmt.Sprintf("%s: dials go to %v, the addresses given last are %v", what, last, addrs[cur])
			}
		}
		quiet := func(what string) {
			// let a dial that was already in flight return, then nothing may follow
			waitFor(func() bool { _, f := h.count(); return f == 0 }, time.Second)
			time.Sleep(5 * time.Millisecond)
			c0, _ := h.count()
			time.Sleep(40 * time.Millisecond)
			if c, _ := h.count(); c != c0 {
				bad = fmt.Sprintf("%s: %d dial(s) after the peer was removed or the service stopped", what, c-c0)
			}
		}
		keepsTrying("after Start")
		for i, k := 0, n; i < 3 && bad == ""; i++ {
			ev := events[k%len(events)]
			k /= len(events)
			trace = append(trace, ev)
			switch ev {
			case "add-same":
				if present {
					ps.AddPeer(peer.AddrInfo{ID: p, Addrs: addrs[cur]})
				}
			case "add-other":
				if present {
					cur = 1 - cur
					ps.AddPeer(peer.AddrInfo{ID: p, Addrs: addrs[cur]})
				}
			case "remove":
				if present {
					ps.RemovePeer(p)
					present = false
				}
			case "add-after":
				if !present {
					ps.AddPeer(peer.AddrInfo{ID: p, Addrs: addrs[cur]})
					present = true
					shrinkAll()
				}
			}
			if present {
				keepsTrying("after " + ev)
			} else {
				quiet("after " + ev)
			}
		}
		ps.Stop()
		if bad == "" {
			quiet("after Stop")
		}
		if bad != "" {
			fails++
			if fails <= 10 {
				fmt.Printf("VERIF-FAIL C46 %v: %s\n", trace, bad)
			}
		}
	}
	fmt.Printf("BOUNDED-STATS {\"cases\":%d,\"failures\":%d,\"bound\":\"every sequence of 3 out of 4 events on one unreachable peer, then Stop\"}\n", cases, fails)
	if fails > 0 {
		t.Fail()
	}
}
