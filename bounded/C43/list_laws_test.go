package iter

// Bounded stand-in for property C43 (labelled bounded; never counted as proved):
// for every integer sequence of length 0..6 over {0,1,2} (1093 sequences), every limit
// -1..8 and two predicates/maps: Map, Filter, Limit and their compositions over a slice
// iterator and over a JSON iterator yield exactly the corresponding list operation; a
// limited iterator asks its source for at most limit elements (never one ahead); Close
// of the composition closes the source; Next after the end stays false.

import (
	"encoding/json"
	"fmt"
	"io"
	"strings"
	"testing"
)

type verifC43Src struct {
	vals   []int
	i      int
	asked  int
	closed int
}

func (s *verifC43Src) Next() bool {
	s.asked++
	s.i++
	return s.i <= len(s.vals)
}
func (s *verifC43Src) Val() int      { return s.vals[s.i-1] }
func (s *verifC43Src) Close() error  { s.closed++; return nil }

type verifC43Reader struct {
	io.Reader
	closed int
}

func (r *verifC43Reader) Close() error { r.closed++; return nil }

func TestVerifBoundedC43ListLaws(t *testing.T) {
	cases, fails := 0, 0
	fail := func(format string, a ...any) {
		fails++
		if fails <= 10 {
			fmt.Printf("VERIF-FAIL C43 "+format+"\n", a...)
		}
	}
	even := func(x int) bool { return x%2 == 0 }
	inc := func(x int) int { return x*10 + 1 }
	var seqs [][]int
	var gen func(prefix []int, n int)
	gen = func(prefix []int, n int) {
		seqs = append(seqs, append([]int(nil), prefix...))
		if n == 0 {
			return
		}
		for v := 0; v < 3; v++ {
			gen(append(prefix, v), n-1)
		}
	}
	gen(nil, 6)
	for _, seq := range seqs {
		for limit := -1; limit <= 8; limit++ {
			cases++
			// model
			var want []int
			for _, x := range seq {
				if even(x) {
					want = append(want, inc(x))
				}
			}
			if limit > 0 && len(want) > limit {
				want = want[:limit]
			}
			// Limit(Map(Filter(src)))
			src := &verifC43Src{vals: seq}
			it := Limit[int](Map[int, int](Filter[int](src, even), inc), limit)
			var got []int
			for it.Next() {
				got = append(got, it.Val())
			}
			if it.Next() {
				fail("%v limit %d: Next after the end is true", seq, limit)
			}
			if fmt.Sprint(got) != fmt.Sprint(want) {
				fail("%v limit %d: Limit(Map(Filter)) = %v, list operations give %v", seq, limit, got, want)
			}
			if err := it.Close(); err != nil || src.closed != 1 {
				fail("%v limit %d: Close did not reach the source (closed %d times, err %v)", seq, limit, src.closed, err)
			}
			// a limit directly on the source never reads ahead
			src2 := &verifC43Src{vals: seq}
			lim := Limit[int](src2, limit)
			n := 0
			for lim.Next() {
				n++
			}
			lim.Next()
			if limit > 0 && limit <= len(seq) && src2.asked > limit {
				fail("%v limit %d: the source was asked %d times", seq, limit, src2.asked)
			}
			wantN := len(seq)
			if limit > 0 && limit < wantN {
				wantN = limit
			}
			if n != wantN {
				fail("%v limit %d: Limit yielded %d values, want %d", seq, limit, n, wantN)
			}
			// limits compose: a limit of a limit is the prefix both allow (0 or less: no limit)
			for inner := -1; inner <= 7; inner += 2 {
				src3 := &verifC43Src{vals: seq}
				nested := Limit[int](Limit[int](src3, inner), limit)
				k := 0
				for nested.Next() {
					k++
				}
				wantK := len(seq)
				for _, l := range []int{inner, limit} {
					if l > 0 && l < wantK {
						wantK = l
					}
				}
				if k != wantK {
					fail("%v: Limit(Limit(src, %d), %d) yielded %d values, want %d", seq, inner, limit, k, wantK)
				}
				if wantK < len(seq) && src3.asked > wantK {
					fail("%v: Limit(Limit(src, %d), %d) asked the source %d times for %d values", seq, inner, limit, src3.asked, wantK)
				}
				if err := nested.Close(); err != nil || src3.closed != 1 {
					fail("%v: closing Limit(Limit(src)) closed the source %d times", seq, src3.closed)
				}
			}
			// slice iterator and JSON iterator yield the sequence itself
			if got := ReadAll[int](FromSlice(seq)); fmt.Sprint(got) != fmt.Sprint(append([]int(nil), seq...)) && len(seq) > 0 {
				fail("%v: FromSlice yields %v", seq, got)
			}
			var sb strings.Builder
			for _, x := range seq {
				b, _ := json.Marshal(x)
				sb.Write(b)
				sb.WriteString("\n")
			}
			rd := &verifC43Reader{Reader: strings.NewReader(sb.String())}
			ji := FromReaderJSON[int](rd)
			vs, err := ReadAllResults[int](Limit[Result[int]](ji, limit))
			wantJ := seq
			if limit > 0 && limit < len(seq) {
				wantJ = seq[:limit]
			}
			if err != nil || fmt.Sprint(vs) != fmt.Sprint(append([]int(nil), wantJ...)) && len(wantJ) > 0 {
				fail("%v limit %d: JSON iterator yields %v (err %v)", seq, limit, vs, err)
			}
			if err := ji.Close(); err != nil || rd.closed != 1 || ji.Next() {
				fail("%v: closing the JSON iterator did not close the reader exactly once or Next is still true", seq)
			}
		}
	}
	// JSON records are decoded independently of one another
	{
		type rec struct {
			A int            `json:"a,omitempty"`
			S []int          `json:"s,omitempty"`
			M map[string]int `json:"m,omitempty"`
		}
		stream := `{"a":1,"s":[1,2,3],"m":{"x":1}}` + "\n" + `{"s":[9]}` + "\n" + `{"m":{"y":2}}` + "\n" + `{}`
		cases++
		var got []rec
		it := FromReaderJSON[rec](strings.NewReader(stream))
		for it.Next() {
			if it.Val().Err != nil {
				fail("JSON records: %v", it.Val().Err)
				break
			}
			got = append(got, it.Val().Val)
		}
		want := `[{1 [1 2 3] map[x:1]} {0 [9] map[]} {0 [] map[y:2]} {0 [] map[]}]`
		if fmt.Sprint(got) != want {
			fail("JSON records decoded as %v, want %s (every record on its own)", got, want)
		}
	}
	// a stream that ends in the middle of a value is malformed input: the elements before it are
	// yielded, then one error result, never a silent end
	for _, stream := range []string{`{"a":1}` + "\n" + `{"a":`, `{"a":1}` + "\n" + `{"a":2`, `[1,2`, `{"a":1}` + "\n" + `{"a":"x"}` + "\n" + `{"a":3}`, `"abc`} {
		cases++
		type rec struct {
			A int `json:"a"`
		}
		it := FromReaderJSON[rec](strings.NewReader(stream))
		sawErr := false
		n := 0
		for it.Next() {
			n++
			if it.Val().Err != nil {
				sawErr = true
			}
			if n > 10 {
				break
			}
		}
		if !sawErr {
			fail("JSON stream %q: iteration ended after %d results without an error result", stream, n)
		}
	}
	fmt.Printf("BOUNDED-STATS {\"cases\":%d,\"failures\":%d,\"bound\":\"all sequences of length 0..6 over 3 values, limits -1..8, nested limits, 5 malformed JSON streams\"}\n", cases, fails)
	if fails > 0 {
		t.Fail()
	}
}
