package blockstore

// Bounded stand-in for property C01 (labelled bounded; never counted as proved):
// every sequence of 3 operations (thorough: 4) over put / putmany / delete on five
// blocks - two of which are the CIDv0 and CIDv1-raw... forms of the same multihash, one
// is an identity-hash block - is run against NewIdStore(NewBlockstore(MapDatastore))
// with and without write-through, and against a map from multihash to bytes; after
// every step Get, Has, GetSize and View of every CID (all forms) and the key
// enumeration must agree with the map.

import (
	"bytes"
	"context"
	"fmt"
	"os"
	"sort"
	"testing"

	blocks "github.com/ipfs/go-block-format"
	cid "github.com/ipfs/go-cid"
	ds "github.com/ipfs/go-datastore"
	dssync "github.com/ipfs/go-datastore/sync"
	ipld "github.com/ipfs/go-ipld-format"
	mh "github.com/multiformats/go-multihash"
)

func TestVerifBoundedC01MapModel(t *testing.T) {
	ctx := context.Background()
	mk := func(data string, version int, codec uint64) blocks.Block {
		h, err := mh.Sum([]byte(data), mh.SHA2_256, -1)
		if err != nil {
			t.Fatal(err)
		}
		var c cid.Cid
		if version == 0 {
			c = cid.NewCidV0(h)
		} else {
			c = cid.NewCidV1(codec, h)
		}
		b, err := blocks.NewBlockWithCid([]byte(data), c)
		if err != nil {
			t.Fatal(err)
		}
		return b
	}
	idh, _ := mh.Sum([]byte("inline"), mh.IDENTITY, -1)
	idBlock, _ := blocks.NewBlockWithCid([]byte("inline"), cid.NewCidV1(cid.Raw, idh))
	idh0, _ := mh.Sum([]byte{}, mh.IDENTITY, -1)
	idEmpty, _ := blocks.NewBlockWithCid([]byte{}, cid.NewCidV1(cid.Raw, idh0))
	blks := []blocks.Block{mk("alpha", 0, 0), mk("alpha", 1, cid.Raw), mk("beta", 1, cid.DagProtobuf), idBlock, idEmpty, mk("", 1, cid.Raw)} // the last one: a stored block of length zero
	isID := func(b blocks.Block) bool { return b == idBlock || b == idEmpty }
	type op struct {
		kind string
		idx  []int
	}
	var ops []op
	for i := range blks {
		ops = append(ops, op{"put", []int{i}}, op{"del", []int{i}})
	}
	ops = append(ops, op{"putmany", []int{0, 2}}, op{"putmany", []int{1, 3, 2}}, op{"putmany", []int{}}, op{"putmany", []int{3}}, op{"putmany", []int{4}})
	seqLen := 3
	if os.Getenv("VERIF_TIER") == "thorough" {
		seqLen = 4
	}
	total := 1
	for i := 0; i < seqLen; i++ {
		total *= len(ops)
	}
	cases, fails := 0, 0
	for _, wt := range []bool{false, true} {
		for idx := 0; idx < total; idx++ {
			cases++
			bs := NewIdStore(NewBlockstore(dssync.MutexWrap(ds.NewMapDatastore()), WriteThrough(wt)))
			model := map[string][]byte{}
			var names []string
			bad := ""
			for i, k := 0, idx; i < seqLen && bad == ""; i++ {
				o := ops[k%len(ops)]
				k /= len(ops)
				names = append(names, fmt.Sprint(o.kind, o.idx))
				var err error
				switch o.kind {
				case "put":
					err = bs.Put(ctx, blks[o.idx[0]])
					if !isID(blks[o.idx[0]]) {
						model[string(blks[o.idx[0]].Cid().Hash())] = blks[o.idx[0]].RawData()
					}
				case "del":
					err = bs.DeleteBlock(ctx, blks[o.idx[0]].Cid())
					delete(model, string(blks[o.idx[0]].Cid().Hash()))
				case "putmany":
					var bl []blocks.Block
					for _, j := range o.idx {
						bl = append(bl, blks[j])
						if !isID(blks[j]) {
							model[string(blks[j].Cid().Hash())] = blks[j].RawData()
						}
					}
					err = bs.PutMany(ctx, bl)
				}
				if err != nil {
					bad = fmt.Sprintf("step %d: %v", i, err)
					break
				}
				for _, b := range blks {
					want, ok := model[string(b.Cid().Hash())]
					if isID(b) {
						want, ok = b.RawData(), true
					}
					got, gerr := bs.Get(ctx, b.Cid())
					has, herr := bs.Has(ctx, b.Cid())
					sz, serr := bs.GetSize(ctx, b.Cid())
					if herr != nil || has != ok {
						bad = fmt.Sprintf("step %d: Has(%s)=%v,%v model %v", i, b.Cid(), has, herr, ok)
					} else if ok && (gerr != nil || !bytes.Equal(got.RawData(), want) || !got.Cid().Equals(b.Cid())) {
						bad = fmt.Sprintf("step %d: Get(%s) err=%v, model has %q", i, b.Cid(), gerr, want)
					} else if !ok && !ipld.IsNotFound(gerr) {
						bad = fmt.Sprintf("step %d: Get(%s) of an absent block: err=%v", i, b.Cid(), gerr)
					} else if ok && (serr != nil || sz != len(want)) {
						bad = fmt.Sprintf("step %d: GetSize(%s)=%d,%v model %d", i, b.Cid(), sz, serr, len(want))
					} else if !ok && (!ipld.IsNotFound(serr) || sz != -1) {
						bad = fmt.Sprintf("step %d: GetSize(%s) of an absent block: %d,%v", i, b.Cid(), sz, serr)
					}
					if v, isViewer := bs.(Viewer); isViewer && bad == "" {
						var seen []byte
						called := false
						verr := v.View(ctx, b.Cid(), func(data []byte) error { seen, called = append([]byte{}, data...), true; return nil })
						if ok && (verr != nil || !called || !bytes.Equal(seen, want)) {
							bad = fmt.Sprintf("step %d: View(%s) err=%v called=%v data %q, model has %q", i, b.Cid(), verr, called, seen, want)
						} else if !ok && (called || !ipld.IsNotFound(verr)) {
							bad = fmt.Sprintf("step %d: View(%s) of an absent block: err=%v called=%v", i, b.Cid(), verr, called)
						}
					}
				}
				if bad == "" {
					ch, err := bs.AllKeysChan(ctx)
					if err != nil {
						bad = err.Error()
						break
					}
					var got []string
					for c := range ch {
						got = append(got, string(c.Hash()))
					}
					var want []string
					for k := range model {
						want = append(want, k)
					}
					sort.Strings(got)
					sort.Strings(want)
					if fmt.Sprint(got) != fmt.Sprint(want) {
						bad = fmt.Sprintf("step %d: enumeration yields %d keys, model has %d", i, len(got), len(want))
					}
				}
			}
			if bad != "" {
				fails++
				if fails <= 10 {
					fmt.Printf("VERIF-FAIL C01 writeThrough=%v %v: %s\n", wt, names, bad)
				}
			}
		}
	}
	fmt.Printf("BOUNDED-STATS {\"cases\":%d,\"failures\":%d,\"bound\":\"%d operations on 4 blocks (CIDv0/CIDv1 twins, identity block), sequences of length %d, write-through on and off\"}\n", cases, fails, len(ops), seqLen)
	if fails > 0 {
		t.Fail()
	}
}
