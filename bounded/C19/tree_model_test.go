package mfs

// Bounded stand-in for property C19 (labelled bounded; never counted as proved):
// starting from a fixed tree with same-named directories in different parents
// (/a/x, /b/x), every sequence of 2 operations (thorough: a deterministic sample
// of sequences of 3) over an alphabet of mv / rm / mkdir / mkdir -p / put
// operations is run against MFS and against an in-memory tree model; after every
// step the whole tree (names, kinds, file contents) must equal the model, a
// failed operation must leave it unchanged, and after a final flush the tree
// re-opened from the flushed root node must equal the model too.
// Moving a directory into itself or below itself (also in the disguised forms
// "mv /b/x /b/" and "mv /a/x /a/x") is in the alphabet: the model refuses it.

import (
	"bytes"
	"context"
	"fmt"
	"io"
	"os"
	gopath "path"
	"sort"
	"strings"
	"testing"

	dag "github.com/ipfs/boxo/ipld/merkledag"
	ft "github.com/ipfs/boxo/ipld/unixfs"
	uio "github.com/ipfs/boxo/ipld/unixfs/io"
	cid "github.com/ipfs/go-cid"
	ipld "github.com/ipfs/go-ipld-format"
)

type verifC19Op struct {
	kind     string
	a, b     string
	mkparent bool
}

func (o verifC19Op) String() string {
	return strings.TrimSpace(fmt.Sprintf("%s %s %s parents=%v", o.kind, o.a, o.b, o.mkparent))
}

// model: path -> "" for a directory, "F:<content>" for a file
type verifC19Model map[string]string

func (m verifC19Model) clone() verifC19Model {
	n := verifC19Model{}
	for k, v := range m {
		n[k] = v
	}
	return n
}

func (m verifC19Model) isDir(p string) bool {
	p = gopath.Clean(p)
	if p == "/" {
		return true
	}
	v, ok := m[p]
	return ok && v == ""
}

func (m verifC19Model) dump() string {
	var ks []string
	for k, v := range m {
		ks = append(ks, k+"="+v)
	}
	sort.Strings(ks)
	return strings.Join(ks, " ")
}

// apply returns whether the operation is expected to succeed; on failure the model is unchanged.
func (m verifC19Model) apply(o verifC19Op) bool {
	switch o.kind {
	case "mkdir":
		p := gopath.Clean(o.a)
		if _, ok := m[p]; ok {
			return o.mkparent && m[p] == ""
		}
		parent := gopath.Dir(p)
		if !m.isDir(parent) {
			if !o.mkparent {
				return false
			}
			// every missing ancestor must be creatable (no file in the way)
			for q := parent; q != "/"; q = gopath.Dir(q) {
				if v, ok := m[q]; ok && v != "" {
					return false
				}
			}
			for q := parent; q != "/"; q = gopath.Dir(q) {
				m[q] = ""
			}
		}
		m[p] = ""
		return true
	case "put":
		dir, name := gopath.Split(o.a)
		if name == "" || !m.isDir(dir) {
			return false
		}
		p := gopath.Clean(o.a)
		if _, ok := m[p]; ok {
			return false
		}
		m[p] = "F:" + o.b
		return true
	case "rm":
		p := gopath.Clean(o.a)
		if _, ok := m[p]; !ok {
			return false
		}
		for k := range m {
			if k == p || strings.HasPrefix(k, p+"/") {
				delete(m, k)
			}
		}
		return true
	case "mv":
		src := gopath.Clean(o.a)
		sv, ok := m[src]
		if !ok || !m.isDir(gopath.Dir(src)) {
			return false
		}
		var dstDir, name string
		if strings.HasSuffix(o.b, "/") {
			dstDir, name = gopath.Clean(o.b), gopath.Base(src)
		} else {
			dstDir, name = gopath.Dir(gopath.Clean(o.b)), gopath.Base(o.b)
		}
		if !m.isDir(dstDir) {
			return false
		}
		below := func(d string) bool { return sv == "" && (d == src || strings.HasPrefix(d, src+"/")) }
		if below(dstDir) {
			return false // a directory cannot be moved into itself
		}
		target := gopath.Join(dstDir, name)
		if tv, ok := m[target]; ok {
			if tv == "" {
				if below(target) {
					return false
				}
				// existing directory: move into it under the source name
				dstDir, name = target, gopath.Base(src)
				target = gopath.Join(dstDir, name)
				if _, ok := m[target]; ok {
					return false
				}
			} else if target != src {
				delete(m, target) // an existing file is replaced
			}
		}
		if target == src {
			return true
		}
		moved := map[string]string{}
		for k, v := range m {
			if k == src || strings.HasPrefix(k, src+"/") {
				moved[target+strings.TrimPrefix(k, src)] = v
				delete(m, k)
			}
		}
		for k, v := range moved {
			m[k] = v
		}
		return true
	}
	panic("unknown op")
}

func verifC19Snapshot(ctx context.Context, ds ipld.DAGService, d *Directory, prefix string, out verifC19Model) error {
	names, err := d.ListNames(ctx)
	if err != nil {
		return err
	}
	for _, n := range names {
		c, err := d.Child(n)
		if err != nil {
			return fmt.Errorf("listed entry %s%s: %w", prefix, n, err)
		}
		switch c := c.(type) {
		case *Directory:
			out[prefix+n] = ""
			if err := verifC19Snapshot(ctx, ds, c, prefix+n+"/", out); err != nil {
				return err
			}
		case *File:
			nd, err := c.GetNode()
			if err != nil {
				return err
			}
			r, err := uio.NewDagReader(ctx, nd, ds)
			if err != nil {
				return err
			}
			b, err := io.ReadAll(r)
			if err != nil {
				return err
			}
			out[prefix+n] = "F:" + string(b)
		}
	}
	return nil
}

func verifC19Run(rt *Root, o verifC19Op) error {
	switch o.kind {
	case "mkdir":
		return Mkdir(rt, o.a, MkdirOpts{Mkparents: o.mkparent})
	case "put":
		return PutNode(rt, o.a, dag.NodeWithData(ft.FilePBData([]byte(o.b), uint64(len(o.b)))))
	case "rm":
		dir, name := gopath.Split(o.a)
		d, err := lookupDir(rt, dir)
		if err != nil {
			return err
		}
		if _, err := d.Child(name); err != nil {
			return err
		}
		return d.Unlink(name)
	case "mv":
		return Mv(rt, o.a, o.b)
	}
	panic("unknown op")
}

func TestVerifBoundedC19TreeModel(t *testing.T) {
	ctx := context.Background()
	initial := []verifC19Op{
		{kind: "mkdir", a: "/a/x", mkparent: true}, {kind: "mkdir", a: "/b/x", mkparent: true},
		{kind: "put", a: "/a/f", b: "af"}, {kind: "put", a: "/a/x/f", b: "axf"}, {kind: "put", a: "/b/g", b: "bg"},
	}
	var ops []verifC19Op
	srcs := []string{"/a/f", "/a/x/f", "/b/g", "/a/x", "/b/x", "/a/nope"}
	dsts := []string{"/a/x/y", "/b/f", "/b/", "/b/x/", "/b/x", "/a/x/f", "/b/g", "/nodir/", "/nodir/z", "/b/g/", "/a/f", "/a/x/", "/c"}
	for _, s := range srcs {
		for _, d := range dsts {
			ops = append(ops, verifC19Op{kind: "mv", a: s, b: d})
		}
	}
	for _, p := range []string{"/a/f", "/b/g", "/a/x", "/a/nope"} {
		ops = append(ops, verifC19Op{kind: "rm", a: p})
	}
	ops = append(ops,
		verifC19Op{kind: "mkdir", a: "/c"}, verifC19Op{kind: "mkdir", a: "/a/x"}, verifC19Op{kind: "mkdir", a: "/c/d"},
		verifC19Op{kind: "mkdir", a: "/c/d", mkparent: true}, verifC19Op{kind: "mkdir", a: "/a/x", mkparent: true},
		verifC19Op{kind: "mkdir", a: "/a/f/y", mkparent: true},
		verifC19Op{kind: "put", a: "/a/f", b: "again"}, verifC19Op{kind: "put", a: "/b/h", b: "bh"}, verifC19Op{kind: "put", a: "/nodir/h", b: "h"})

	seqLen, stride := 2, 1
	if os.Getenv("VERIF_TIER") == "thorough" {
		seqLen, stride = 3, 7
	}
	total := 1
	for i := 0; i < seqLen; i++ {
		total *= len(ops)
	}
	cases, fails := 0, 0
	for idx := 0; idx < total; idx += stride {
		seq := make([]verifC19Op, seqLen)
		for i, k := 0, idx; i < seqLen; i++ {
			seq[i] = ops[k%len(ops)]
			k /= len(ops)
		}
		cases++
		ds := getDagserv(t)
		rt, err := NewRoot(ctx, ds, emptyDirNode(), func(context.Context, cid.Cid) error { return nil }, nil)
		if err != nil {
			t.Fatal(err)
		}
		model := verifC19Model{}
		for _, o := range initial {
			if err := verifC19Run(rt, o); err != nil {
				t.Fatal(err)
			}
			model.apply(o)
		}
		bad := ""
		for i, o := range seq {
			next := model.clone()
			want := next.apply(o)
			err := verifC19Run(rt, o)
			if want {
				model = next
			}
			got := verifC19Model{}
			if serr := verifC19Snapshot(ctx, ds, rt.GetDirectory(), "/", got); serr != nil {
				bad = fmt.Sprintf("step %d (%v): cannot read the tree back: %v", i, o, serr)
				break
			}
			if (err == nil) != want {
				bad = fmt.Sprintf("step %d (%v): MFS answered err=%v, the model expects success=%v", i, o, err, want)
				break
			}
			if got.dump() != model.dump() {
				bad = fmt.Sprintf("step %d (%v, err=%v): tree is {%s}, model is {%s}", i, o, err, got.dump(), model.dump())
				break
			}
		}
		if bad == "" {
			nd, err := FlushPath(ctx, rt, "/")
			if err != nil {
				bad = "flush: " + err.Error()
			} else if pn, ok := nd.(*dag.ProtoNode); !ok {
				bad = "flushed root is not a ProtoNode"
			} else {
				rt2, err := NewRoot(ctx, ds, pn, nil, nil)
				if err != nil {
					bad = "reopen: " + err.Error()
				} else {
					got := verifC19Model{}
					if err := verifC19Snapshot(ctx, ds, rt2.GetDirectory(), "/", got); err != nil {
						bad = "reopened tree unreadable: " + err.Error()
					} else if got.dump() != model.dump() {
						bad = fmt.Sprintf("after flush the DAG describes {%s}, model is {%s}", got.dump(), model.dump())
					}
				}
			}
		}
		if bad != "" {
			fails++
			if fails <= 10 {
				var names []string
				for _, o := range seq {
					names = append(names, o.String())
				}
				fmt.Printf("VERIF-FAIL C19 [%s]: %s\n", strings.Join(names, "; "), bad)
			}
		}
		_ = bytes.Equal
	}
	fmt.Printf("BOUNDED-STATS {\"cases\":%d,\"failures\":%d,\"bound\":\"%d operations in the alphabet, sequences of length %d (every %d-th), fixed initial tree /a/x /b/x /a/f /a/x/f /b/g\"}\n", cases, fails, len(ops), seqLen, stride)
	if fails > 0 {
		t.Fail()
	}
}
