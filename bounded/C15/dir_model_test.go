package io

// Bounded stand-in for property C15, part 2 (labelled bounded; never counted as proved):
// for a basic, a pure HAMT (fanout 8 and 256) and an automatically switching directory
// (small sharding threshold so that it switches both ways), also continuing on the directory
// as reloaded from its root node after every step, every sequence of 4 operations
// (thorough: 5, sampled) out of add/replace/remove over 6 names is run; after every step
// Links, ForEachLink, EnumLinksAsync and Find must equal a map model, removal of a missing
// name must report os.ErrNotExist, and the directory reloaded from GetNode must list the
// same entries.

import (
	"context"
	"errors"
	"fmt"
	"os"
	"sort"
	"testing"

	mdag "github.com/ipfs/boxo/ipld/merkledag"
	mdtest "github.com/ipfs/boxo/ipld/merkledag/test"
	ft "github.com/ipfs/boxo/ipld/unixfs"
	ipld "github.com/ipfs/go-ipld-format"
)

func TestVerifBoundedC15DirModel(t *testing.T) {
	ctx := context.Background()
	names := []string{"a", "b", "a-rather-long-entry-name-to-cross-the-small-threshold-quickly-1", "a-rather-long-entry-name-to-cross-the-small-threshold-quickly-2", "c", "ü"}
	type op struct {
		kind string
		name string
		val  int
	}
	var ops []op
	for _, n := range names {
		ops = append(ops, op{"add", n, 0}, op{"add", n, 1}, op{"rm", n, 0})
	}
	seqLen, stride := 4, 19
	if os.Getenv("VERIF_TIER") == "thorough" {
		seqLen, stride = 5, 23
	}
	total := 1
	for i := 0; i < seqLen; i++ {
		total *= len(ops)
	}
	kinds := []string{"basic", "hamt8", "hamt256", "dynamic", "hamt8-reloaded", "dynamic-reloaded"}
	cases, fails := 0, 0
	for _, kind := range kinds {
		for idx := 0; idx < total; idx += stride {
			cases++
			ds := mdtest.Mock()
			vals := []ipld.Node{ft.EmptyDirNode(), mdag.NodeWithData(ft.FilePBData([]byte("x"), 1))}
			for _, v := range vals {
				if err := ds.Add(ctx, v); err != nil {
					t.Fatal(err)
				}
			}
			var dir Directory
			var err error
			switch kind {
			case "basic":
				dir, err = NewBasicDirectory(ds)
			case "hamt8", "hamt8-reloaded":
				dir, err = NewHAMTDirectory(ds, 0, WithMaxHAMTFanout(8))
			case "hamt256":
				dir, err = NewHAMTDirectory(ds, 0, WithMaxHAMTFanout(256))
			case "dynamic", "dynamic-reloaded":
				dir, err = NewDirectory(ds, WithMaxHAMTFanout(8))
				if err == nil {
					dir.(*DynamicDirectory).Directory.(*BasicDirectory).SetHAMTShardingSize(150)
				}
			}
			if err != nil {
				t.Fatal(err)
			}
			model := map[string]int{}
			var trace []string
			bad := ""
			check := func(d Directory, what string) string {
				want := []string{}
				for n, v := range model {
					want = append(want, n+"="+vals[v].Cid().String())
				}
				sort.Strings(want)
				collect := func(ls []*ipld.Link) []string {
					out := []string{}
					for _, l := range ls {
						out = append(out, l.Name+"="+l.Cid.String())
					}
					sort.Strings(out)
					return out
				}
				ls, err := d.Links(ctx)
				if err != nil || fmt.Sprint(collect(ls)) != fmt.Sprint(want) {
					return fmt.Sprintf("%s: Links() = %v (err %v), model %v", what, collect(ls), err, want)
				}
				var fe []*ipld.Link
				if err := d.ForEachLink(ctx, func(l *ipld.Link) error { fe = append(fe, l); return nil }); err != nil || fmt.Sprint(collect(fe)) != fmt.Sprint(want) {
					return fmt.Sprintf("%s: ForEachLink = %v (err %v), model %v", what, collect(fe), err, want)
				}
				var en []*ipld.Link
				for r := range d.EnumLinksAsync(ctx) {
					if r.Err != nil {
						return what + ": EnumLinksAsync: " + r.Err.Error()
					}
					en = append(en, r.Link)
				}
				if fmt.Sprint(collect(en)) != fmt.Sprint(want) {
					return fmt.Sprintf("%s: EnumLinksAsync = %v, model %v", what, collect(en), want)
				}
				for _, n := range names {
					nd, err := d.Find(ctx, n)
					v, ok := model[n]
					if ok && (err != nil || !nd.Cid().Equals(vals[v].Cid())) {
						return fmt.Sprintf("%s: Find(%q) err=%v, model has it", what, n, err)
					}
					if !ok && !errors.Is(err, os.ErrNotExist) {
						return fmt.Sprintf("%s: Find(%q) of a missing name: %v", what, n, err)
					}
				}
				return ""
			}
			for i, k := 0, idx; i < seqLen && bad == ""; i++ {
				o := ops[k%len(ops)]
				k /= len(ops)
				trace = append(trace, fmt.Sprintf("%s(%q,%d)", o.kind, o.name, o.val))
				switch o.kind {
				case "add":
					if err := dir.AddChild(ctx, o.name, vals[o.val]); err != nil {
						bad = fmt.Sprintf("step %d: AddChild: %v", i, err)
					}
					model[o.name] = o.val
				case "rm":
					err := dir.RemoveChild(ctx, o.name)
					if _, ok := model[o.name]; ok {
						if err != nil {
							bad = fmt.Sprintf("step %d: RemoveChild of an existing name: %v", i, err)
						}
					} else if !errors.Is(err, os.ErrNotExist) {
						bad = fmt.Sprintf("step %d: RemoveChild of a missing name answered %v, want os.ErrNotExist", i, err)
					}
					delete(model, o.name)
				}
				if bad == "" {
					bad = check(dir, fmt.Sprintf("step %d", i))
				}
				if bad == "" {
					nd, err := dir.GetNode()
					if err != nil {
						bad = "GetNode: " + err.Error()
					} else if err := ds.Add(ctx, nd); err != nil {
						bad = err.Error()
					} else if re, err := NewDirectoryFromNode(ds, nd); err != nil {
						bad = "reload: " + err.Error()
					} else {
						bad = check(re, fmt.Sprintf("step %d after reload", i))
						if kind == "hamt8-reloaded" || kind == "dynamic-reloaded" {
							// keep working on the directory as loaded from its root node
							if dd, ok := re.(*DynamicDirectory); ok && kind == "dynamic-reloaded" {
								if b, ok := dd.Directory.(*BasicDirectory); ok {
									b.SetHAMTShardingSize(150)
								} else if hd, ok := dd.Directory.(*HAMTDirectory); ok {
									hd.SetHAMTShardingSize(150)
								}
							}
							dir = re
						}
					}
				}
			}
			if bad != "" {
				fails++
				if fails <= 10 {
					fmt.Printf("VERIF-FAIL C15 %s %v: %s\n", kind, trace, bad)
				}
			}
		}
	}
	fmt.Printf("BOUNDED-STATS {\"cases\":%d,\"failures\":%d,\"bound\":\"6 directory kinds, %d operations, sequences of length %d (every %d-th)\"}\n", cases, fails, len(ops), seqLen, stride)
	if fails > 0 {
		t.Fail()
	}
}
