package io

// Bounded stand-in for property C15, part 2 (labelled bounded; never counted as proved):
// for a basic, a pure HAMT (fanout 8 and 256) and an automatically switching directory
// (small sharding threshold so that it switches both ways), also continuing on the directory
// as reloaded from its root node after every step, every sequence of 4 operations
// (thorough: 5, sampled) out of add/replace/remove over 6 names is run; after every step
// Links, ForEachLink, EnumLinksAsync and Find must equal a map model, removal of a missing
// name must report os.ErrNotExist, and the directory reloaded from GetNode must list the
// same entries. A second pass runs the reloaded HAMT kinds over three or four names - two share a slot
// of the root shard, the others lie between that slot and the slots the two have one level down -
// so that removals collapse child shards next to other entries; the "reloaded" kinds continue on a
// freshly loaded copy whose child shards have not been read yet.

import (
	"context"
	"errors"
	"fmt"
	"os"
	"sort"
	"testing"

	mdag "github.com/ipfs/boxo/ipld/merkledag"
	mdtest "github.com/ipfs/boxo/ipld/merkledag/test"
	ft "github.com/ipfs/boxo/ipld/unixfs"
	ipld "github.com/ipfs/go-ipld-format"
)

func TestVerifBoundedC15DirModel(t *testing.T) {
	ctx := context.Background()
	type op struct {
		kind string
		name string
		val  int
	}
	// second pass: three names that share a slot of the root shard (width 8) and one that does
	// not, so that removals collapse child shards while sibling entries are still unloaded
	slotOf := func(name string) string {
		ds := mdtest.Mock()
		d, err := NewHAMTDirectory(ds, 0, WithMaxHAMTFanout(8))
		if err != nil {
			t.Fatal(err)
		}
		if err := d.AddChild(ctx, name, ft.EmptyDirNode()); err != nil {
			t.Fatal(err)
		}
		nd, err := d.GetNode()
		if err != nil || len(nd.Links()) != 1 {
			t.Fatalf("probe %q: %v", name, err)
		}
		return nd.Links()[0].Name[:len(nd.Links()[0].Name)-len(name)]
	}
	bySlot := map[string][]string{}
	var colliding []string
	for i := 0; i < 600 && colliding == nil; i++ {
		n := fmt.Sprintf("n%d", i)
		sl := slotOf(n)
		bySlot[sl] = append(bySlot[sl], n)
		for _, m := range bySlot[sl][:len(bySlot[sl])-1] {
			// second-level slots of the pair: read them off the child shard
			ds := mdtest.Mock()
			d, err := NewHAMTDirectory(ds, 0, WithMaxHAMTFanout(8))
			if err != nil {
				t.Fatal(err)
			}
			for _, x := range []string{m, n} {
				if err := d.AddChild(ctx, x, ft.EmptyDirNode()); err != nil {
					t.Fatal(err)
				}
			}
			root, err := d.GetNode()
			if err != nil || len(root.Links()) != 1 {
				continue
			}
			child, err := root.Links()[0].GetNode(ctx, ds)
			if err != nil || len(child.Links()) != 2 {
				continue // they collide again one level down
			}
			// for each of the two, a name whose root slot lies strictly between the shared root
			// slot and that name's slot in the child shard, so that a link kept under the wrong
			// prefix changes the order of the root's links
			var fillers []string
			for _, l := range child.Links() {
				lo, hi := sl, l.Name[:len(sl)]
				if lo > hi {
					lo, hi = hi, lo
				}
				for other, ns := range bySlot {
					if other > lo && other < hi {
						fillers = append(fillers, ns[0])
						break
					}
				}
			}
			if len(fillers) == 2 && colliding == nil {
				colliding = []string{m, n, fillers[0]}
				if fillers[1] != fillers[0] {
					colliding = append(colliding, fillers[1])
				}
			}
		}
	}
	if colliding == nil {
		t.Fatal("no colliding names found")
	}
	type pass struct {
		names  []string
		kinds  []string
		twoVal bool
		seqLen int
		stride int
	}
	passes := []pass{
		{[]string{"a", "b", "a-rather-long-entry-name-to-cross-the-small-threshold-quickly-1", "a-rather-long-entry-name-to-cross-the-small-threshold-quickly-2", "c", "ü"},
			[]string{"basic", "hamt8", "hamt256", "dynamic", "hamt8-reloaded", "dynamic-reloaded"}, true, 4, 19},
		{colliding, []string{"hamt8-reloaded", "dynamic-reloaded"}, false, 4, 1},
	}
	if os.Getenv("VERIF_TIER") == "thorough" {
		passes[0].seqLen, passes[0].stride = 5, 23
		passes[1].seqLen, passes[1].stride = 5, 1
	}
	cases, fails := 0, 0
	nops := 0
	for _, ps := range passes {
		names, kinds, seqLen, stride := ps.names, ps.kinds, ps.seqLen, ps.stride
		var ops []op
		for _, n := range names {
			ops = append(ops, op{"add", n, 0}, op{"rm", n, 0})
			if ps.twoVal {
				ops = append(ops, op{"add", n, 1})
			}
		}
		nops += len(ops)
		total := 1
		for i := 0; i < seqLen; i++ {
			total *= len(ops)
		}
		for _, kind := range kinds {
			for idx := 0; idx < total; idx += stride {
				cases++
				ds := mdtest.Mock()
				vals := []ipld.Node{ft.EmptyDirNode(), mdag.NodeWithData(ft.FilePBData([]byte("x"), 1))}
				for _, v := range vals {
					if err := ds.Add(ctx, v); err != nil {
						t.Fatal(err)
					}
				}
				var dir Directory
				var err error
				switch kind {
				case "basic":
					dir, err = NewBasicDirectory(ds)
				case "hamt8", "hamt8-reloaded":
					dir, err = NewHAMTDirectory(ds, 0, WithMaxHAMTFanout(8))
				case "hamt256":
					dir, err = NewHAMTDirectory(ds, 0, WithMaxHAMTFanout(256))
				case "dynamic", "dynamic-reloaded":
					dir, err = NewDirectory(ds, WithMaxHAMTFanout(8))
					if err == nil {
						dir.(*DynamicDirectory).Directory.(*BasicDirectory).SetHAMTShardingSize(150)
					}
				}
				if err != nil {
					t.Fatal(err)
				}
				model := map[string]int{}
				var trace []string
				bad := ""
				check := func(d Directory, what string) string {
					want := []string{}
					for n, v := range model {
						want = append(want, n+"="+vals[v].Cid().String())
					}
					sort.Strings(want)
					collect := func(ls []*ipld.Link) []string {
						out := []string{}
						for _, l := range ls {
							out = append(out, l.Name+"="+l.Cid.String())
						}
						sort.Strings(out)
						return out
					}
					ls, err := d.Links(ctx)
					if err != nil || fmt.Sprint(collect(ls)) != fmt.Sprint(want) {
						return fmt.Sprintf("%s: Links() = %v (err %v), model %v", what, collect(ls), err, want)
					}
					var fe []*ipld.Link
					if err := d.ForEachLink(ctx, func(l *ipld.Link) error { fe = append(fe, l); return nil }); err != nil || fmt.Sprint(collect(fe)) != fmt.Sprint(want) {
						return fmt.Sprintf("%s: ForEachLink = %v (err %v), model %v", what, collect(fe), err, want)
					}
					var en []*ipld.Link
					for r := range d.EnumLinksAsync(ctx) {
						if r.Err != nil {
							return what + ": EnumLinksAsync: " + r.Err.Error()
						}
						en = append(en, r.Link)
					}
					if fmt.Sprint(collect(en)) != fmt.Sprint(want) {
						return fmt.Sprintf("%s: EnumLinksAsync = %v, model %v", what, collect(en), want)
					}
					for _, n := range names {
						nd, err := d.Find(ctx, n)
						v, ok := model[n]
						if ok && (err != nil || !nd.Cid().Equals(vals[v].Cid())) {
							return fmt.Sprintf("%s: Find(%q) err=%v, model has it", what, n, err)
						}
						if !ok && !errors.Is(err, os.ErrNotExist) {
							return fmt.Sprintf("%s: Find(%q) of a missing name: %v", what, n, err)
						}
					}
					return ""
				}
				for i, k := 0, idx; i < seqLen && bad == ""; i++ {
					o := ops[k%len(ops)]
					k /= len(ops)
					trace = append(trace, fmt.Sprintf("%s(%q,%d)", o.kind, o.name, o.val))
					switch o.kind {
					case "add":
						if err := dir.AddChild(ctx, o.name, vals[o.val]); err != nil {
							bad = fmt.Sprintf("step %d: AddChild: %v", i, err)
						}
						model[o.name] = o.val
					case "rm":
						err := dir.RemoveChild(ctx, o.name)
						if _, ok := model[o.name]; ok {
							if err != nil {
								bad = fmt.Sprintf("step %d: RemoveChild of an existing name: %v", i, err)
							}
						} else if !errors.Is(err, os.ErrNotExist) {
							bad = fmt.Sprintf("step %d: RemoveChild of a missing name answered %v, want os.ErrNotExist", i, err)
						}
						delete(model, o.name)
					}
					// serialize first: the comparison below reads every entry and thereby loads
					// every child shard, and the node must also be right when it is written
					// with children that have never been read
					var early ipld.Node
					if bad == "" {
						var err error
						if early, err = dir.GetNode(); err != nil {
							bad = "GetNode: " + err.Error()
						}
					}
					if bad == "" {
						bad = check(dir, fmt.Sprintf("step %d", i))
					}
					if bad == "" {
						nd, err := early, error(nil)
						if err != nil {
							bad = "GetNode: " + err.Error()
						} else if err := ds.Add(ctx, nd); err != nil {
							bad = err.Error()
						} else if re, err := NewDirectoryFromNode(ds, nd); err != nil {
							bad = "reload: " + err.Error()
						} else {
							bad = check(re, fmt.Sprintf("step %d after reload", i))
							if kind == "hamt8-reloaded" || kind == "dynamic-reloaded" {
								// keep working on the directory as loaded from its root node
								if dd, ok := re.(*DynamicDirectory); ok && kind == "dynamic-reloaded" {
									if b, ok := dd.Directory.(*BasicDirectory); ok {
										b.SetHAMTShardingSize(150)
									} else if hd, ok := dd.Directory.(*HAMTDirectory); ok {
										hd.SetHAMTShardingSize(150)
									}
								}
								// (a second, untouched copy: the comparison above has loaded every
								// shard of `re`, the next edit must meet unloaded children)
								re2, err := NewDirectoryFromNode(ds, nd)
								if kind == "hamt8-reloaded" {
									// stay a pure HAMT (the automatically switching wrapper would turn a
									// small directory into a basic one at the first removal)
									if _, isBasic := re2.(*DynamicDirectory).Directory.(*BasicDirectory); !isBasic {
										re2, err = NewHAMTDirectoryFromNode(ds, nd)
									}
								}
								if err != nil {
									bad = "reload: " + err.Error()
								} else {
									if dd, ok := re2.(*DynamicDirectory); ok && kind == "dynamic-reloaded" {
										if b, ok := dd.Directory.(*BasicDirectory); ok {
											b.SetHAMTShardingSize(150)
										} else if hd, ok := dd.Directory.(*HAMTDirectory); ok {
											hd.SetHAMTShardingSize(150)
										}
									}
									dir = re2
								}
							}
						}
					}
				}
				if bad != "" {
					fails++
					if fails <= 10 {
						fmt.Printf("VERIF-FAIL C15 %s %v: %s\n", kind, trace, bad)
					}
				}
			}
		}
	}
	fmt.Printf("BOUNDED-STATS {\"cases\":%d,\"failures\":%d,\"bound\":\"6 directory kinds over 6 names (sequences of %d, every %d-th) and 2 reloaded HAMT kinds over 3-4 names of which 2 share a root slot (all sequences of %d), %d operations in all\"}\n", cases, fails, passes[0].seqLen, passes[0].stride, passes[1].seqLen, nops)
	if fails > 0 {
		t.Fail()
	}
}
