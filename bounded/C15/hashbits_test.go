package hamt

// Bounded stand-in for property C15, part 1 (labelled bounded; never counted as proved):
// hashBits.Next against a bit-by-bit reference for every start offset 0..40, every width
// 1..24 and 64 pseudo-random 8-byte hashes, plus: a Shard with every valid width 8..1024
// resolves every one of 300 stored names (Set, Find, reload from the root node, Find).

import (
	"context"
	"fmt"
	"testing"

	mdtest "github.com/ipfs/boxo/ipld/merkledag/test"
	ft "github.com/ipfs/boxo/ipld/unixfs"
)

func TestVerifBoundedC15HashBits(t *testing.T) {
	cases, fails := 0, 0
	x := uint64(0x9e3779b97f4a7c15)
	for h := 0; h < 64; h++ {
		b := make([]byte, 8)
		for i := range b {
			x ^= x << 13
			x ^= x >> 7
			x ^= x << 17
			b[i] = byte(x)
		}
		for off := 0; off <= 40; off++ {
			for w := 1; w <= 24; w++ {
				cases++
				hb := &hashBits{b: b, consumed: off}
				got, err := hb.Next(w)
				if off+w > 64 {
					if err == nil {
						fails++
						fmt.Printf("VERIF-FAIL C15 Next(%d) at offset %d of a 64-bit hash did not fail\n", w, off)
					}
					continue
				}
				want := 0
				for k := 0; k < w; k++ {
					bit := (b[(off+k)/8] >> uint(7-(off+k)%8)) & 1
					want = want<<1 | int(bit)
				}
				if err != nil || got != want || hb.consumed != off+w {
					fails++
					if fails <= 10 {
						fmt.Printf("VERIF-FAIL C15 Next(%d) at offset %d of %x: got %d (err %v, consumed %d), bits are %d\n", w, off, b, got, err, hb.consumed, want)
					}
				}
			}
		}
	}
	ctx := context.Background()
	for width := 8; width <= 1024; width *= 2 {
		ds := mdtest.Mock()
		s, err := NewShard(ds, width)
		if err != nil {
			t.Fatal(err)
		}
		child := ft.EmptyDirNode()
		if err := ds.Add(ctx, child); err != nil {
			t.Fatal(err)
		}
		for i := 0; i < 300; i++ {
			if err := s.Set(ctx, fmt.Sprintf("name-%d", i), child); err != nil {
				t.Fatal(err)
			}
		}
		nd, err := s.Node()
		if err != nil {
			t.Fatal(err)
		}
		if err := ds.Add(ctx, nd); err != nil {
			t.Fatal(err)
		}
		re, err := NewHamtFromDag(ds, nd)
		if err != nil {
			t.Fatal(err)
		}
		for i := 0; i < 300; i++ {
			cases++
			name := fmt.Sprintf("name-%d", i)
			if _, err := s.Find(ctx, name); err != nil {
				fails++
				fmt.Printf("VERIF-FAIL C15 width %d: stored name %s not found: %v\n", width, name, err)
			}
			if _, err := re.Find(ctx, name); err != nil {
				fails++
				fmt.Printf("VERIF-FAIL C15 width %d: stored name %s not found after reload: %v\n", width, name, err)
			}
		}
		if _, err := re.Find(ctx, "absent"); err == nil {
			fails++
			fmt.Printf("VERIF-FAIL C15 width %d: a name that was never stored is found\n", width)
		}
	}
	fmt.Printf("BOUNDED-STATS {\"cases\":%d,\"failures\":%d}\n", cases, fails)
	if fails > 0 {
		t.Fail()
	}
}
