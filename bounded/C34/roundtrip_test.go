package message

// Bounded stand-in for property C34 (labelled bounded; never counted as proved):
//  - every message built from subsets of 3 want-list entries (all 16 flag combinations
//    each), 6 blocks (CIDv0, CIDv1 raw, CIDv1 sha2-512, and prefixes differing from these in one
//    component only: hash function, digest length, codec), 2 presences, both full flags and
//    3 pending-bytes values round-trips through the v1 wire format unchanged; the v0 format
//    preserves want-list and block bytes;
//  - every single-byte corruption (xor 0x01, 0x80; truncation at every length) of a v1
//    message either fails to parse or yields blocks whose CID is the hash of their data.

import (
	"bytes"
	"fmt"
	"sort"
	"testing"

	pb "github.com/ipfs/boxo/bitswap/message/pb"
	blocks "github.com/ipfs/go-block-format"
	cid "github.com/ipfs/go-cid"
	mh "github.com/multiformats/go-multihash"
)

func verifC34Dump(m BitSwapMessage, withMeta bool) string {
	var out []string
	for _, e := range m.Wantlist() {
		if withMeta {
			out = append(out, fmt.Sprintf("W %s p=%d t=%d c=%v d=%v", e.Cid, e.Priority, e.WantType, e.Cancel, e.SendDontHave))
		} else {
			out = append(out, fmt.Sprintf("W %s p=%d c=%v", e.Cid, e.Priority, e.Cancel))
		}
	}
	for _, b := range m.Blocks() {
		if withMeta {
			out = append(out, fmt.Sprintf("B %s %x", b.Cid(), b.RawData()))
		} else {
			out = append(out, fmt.Sprintf("B %x", b.RawData()))
		}
	}
	if withMeta {
		for _, p := range m.BlockPresences() {
			out = append(out, fmt.Sprintf("P %s %d", p.Cid, p.Type))
		}
		out = append(out, fmt.Sprintf("full=%v pending=%d", m.Full(), m.PendingBytes()))
	} else {
		out = append(out, fmt.Sprintf("full=%v", m.Full()))
	}
	sort.Strings(out)
	return fmt.Sprint(out)
}

func verifC34SelfCertified(m BitSwapMessage) string {
	for _, b := range m.Blocks() {
		want, err := b.Cid().Prefix().Sum(b.RawData())
		if err != nil || !want.Equals(b.Cid()) {
			return fmt.Sprintf("parsed block claims %s but its %d bytes hash to %s", b.Cid(), len(b.RawData()), want)
		}
	}
	return ""
}

func TestVerifBoundedC34RoundTrip(t *testing.T) {
	mkBlock := func(data string, pref cid.Prefix) blocks.Block {
		c, err := pref.Sum([]byte(data))
		if err != nil {
			t.Fatal(err)
		}
		b, err := blocks.NewBlockWithCid([]byte(data), c)
		if err != nil {
			t.Fatal(err)
		}
		return b
	}
	blks := []blocks.Block{
		mkBlock("v0 block", cid.Prefix{Version: 0, Codec: cid.DagProtobuf, MhType: mh.SHA2_256, MhLength: -1}),
		mkBlock("raw block", cid.Prefix{Version: 1, Codec: cid.Raw, MhType: mh.SHA2_256, MhLength: -1}),
		mkBlock("", cid.Prefix{Version: 1, Codec: cid.DagCBOR, MhType: mh.SHA2_512, MhLength: -1}),
		// same version, codec and digest length as "raw block", another hash function
		mkBlock("raw block, other hash", cid.Prefix{Version: 1, Codec: cid.Raw, MhType: mh.DBL_SHA2_256, MhLength: -1}),
		// prefixes that differ from an earlier one in exactly one component: digest length, codec, version
		mkBlock("raw block, short digest", cid.Prefix{Version: 1, Codec: cid.Raw, MhType: mh.SHA2_256, MhLength: 20}),
		mkBlock("raw block, other codec", cid.Prefix{Version: 1, Codec: cid.DagProtobuf, MhType: mh.SHA2_256, MhLength: -1}),
	}
	wants := []cid.Cid{blks[0].Cid(), blks[1].Cid(), mkBlock("other", cid.Prefix{Version: 1, Codec: cid.Raw, MhType: mh.SHA2_256, MhLength: -1}).Cid()}
	cases, fails := 0, 0
	fail := func(format string, a ...any) {
		fails++
		if fails <= 10 {
			fmt.Printf("VERIF-FAIL C34 "+format+"\n", a...)
		}
	}
	var sample []byte
	for wmask := 0; wmask < 8; wmask++ {
		for flags := 0; flags < 16; flags++ {
			for bmask := 0; bmask < 64; bmask++ {
				if bmask >= 16 && (wmask != 7 || flags != 9) {
					continue // the two extra prefixes run with one want-list shape only
				}
				for pmask := 0; pmask < 4; pmask++ {
					for _, full := range []bool{false, true} {
						cases++
						m := New(full)
						for i, c := range wants {
							if wmask&(1<<i) == 0 {
								continue
							}
							wt := pb.Message_Wantlist_Block
							if flags&1 != 0 {
								wt = pb.Message_Wantlist_Have
							}
							if flags&2 != 0 {
								m.Cancel(c)
							} else {
								m.AddEntry(c, int32(i+1)*int32(1+flags&4), wt, flags&8 != 0)
							}
						}
						for i, b := range blks {
							if bmask&(1<<i) != 0 {
								m.AddBlock(b)
							}
						}
						if pmask&1 != 0 {
							m.AddHave(wants[2])
						}
						if pmask&2 != 0 {
							m.AddDontHave(blks[2].Cid())
						}
						m.SetPendingBytes(int32(pmask * 1000))
						var buf bytes.Buffer
						if err := m.ToNetV1(&buf); err != nil {
							fail("serialize v1: %v", err)
							continue
						}
						if wmask == 7 && bmask == 15 && pmask == 1 && flags == 9 && full {
							sample = append([]byte(nil), buf.Bytes()...)
						}
						got, _, err := FromNet(&buf)
						if err != nil {
							fail("parse of a serialized v1 message: %v", err)
							continue
						}
						if verifC34Dump(got, true) != verifC34Dump(m, true) {
							fail("v1 round trip changed the message:\n  sent %s\n  got  %s", verifC34Dump(m, true), verifC34Dump(got, true))
						}
						if s := verifC34SelfCertified(got); s != "" {
							fail("%s", s)
						}
						// v0: only CIDv0 blocks can be represented; compare want-list and bytes
						v0 := New(full)
						for _, e := range m.Wantlist() {
							if e.Cancel {
								v0.Cancel(e.Cid)
							} else {
								v0.AddEntry(e.Cid, e.Priority, pb.Message_Wantlist_Block, false)
							}
						}
						if bmask&1 != 0 {
							v0.AddBlock(blks[0])
						}
						buf.Reset()
						if err := v0.ToNetV0(&buf); err != nil {
							fail("serialize v0: %v", err)
							continue
						}
						got0, _, err := FromNet(&buf)
						if err != nil || verifC34Dump(got0, false) != verifC34Dump(v0, false) {
							fail("v0 round trip: err=%v sent %s got %s", err, verifC34Dump(v0, false), verifC34Dump(got0, false))
						} else if s := verifC34SelfCertified(got0); s != "" {
							fail("%s", s)
						}
					}
				}
			}
		}
	}
	// corrupted wire bytes: parse fails or blocks stay self-certifying
	for i := 0; i < len(sample); i++ {
		for _, x := range []byte{0x01, 0x80} {
			cases++
			mut := append([]byte(nil), sample...)
			mut[i] ^= x
			if m, _, err := FromNet(bytes.NewReader(mut)); err == nil {
				if s := verifC34SelfCertified(m); s != "" {
					fail("after flipping bit of byte %d: %s", i, s)
				}
			}
		}
		cases++
		if m, _, err := FromNet(bytes.NewReader(sample[:i])); err == nil {
			if s := verifC34SelfCertified(m); s != "" {
				fail("after truncation to %d bytes: %s", i, s)
			}
		}
	}
	fmt.Printf("BOUNDED-STATS {\"cases\":%d,\"failures\":%d}\n", cases, fails)
	if fails > 0 {
		t.Fail()
	}
}
