package ipns

// Bounded stand-in / replay harness for property C27 (labelled bounded; never
// counted as proved): for every multiset of up to 3 records drawn from a pool
// that varies (V2 signature present, sequence around 2^63 and 2^64-1,
// end-of-life differing by a nanosecond / half a second / a second, value
// bytes) and for every ordering of it, Validator.Select returns the same
// bytes, namely the maximum under (hasV2, sequence, EOL, bytes).

import (
	"bytes"
	"crypto/rand"
	"fmt"
	"math"
	"testing"
	"time"

	"github.com/ipfs/boxo/path"
	ic "github.com/libp2p/go-libp2p/core/crypto"
)

type verifRec struct {
	v2    bool
	seq   uint64
	eol   time.Time
	bytes []byte
}

func verifBetter(a, b verifRec) bool { // a strictly better than b
	if a.v2 != b.v2 {
		return a.v2
	}
	if a.seq != b.seq {
		return a.seq > b.seq
	}
	if !a.eol.Equal(b.eol) {
		return a.eol.After(b.eol)
	}
	return bytes.Compare(a.bytes, b.bytes) > 0
}

func TestVerifBoundedC27Select(t *testing.T) {
	sk, _, err := ic.GenerateEd25519Key(rand.Reader)
	if err != nil {
		t.Fatal(err)
	}
	base := time.Date(2030, 1, 2, 3, 4, 30, 0, time.UTC)
	pa, _ := path.NewPath("/ipfs/bafkreifjjcie6lypi6ny7amxnfftagclbuxndqonfipmb64f2km2devei4")
	pb, _ := path.NewPath("/ipfs/bafkreihzrqy23ynilblgil62wy7gv22o4gklv2frcsgbwntnhptmzcq5tq")
	var pool []verifRec
	add := func(v2 bool, seq uint64, eol time.Time, p path.Path, ttl time.Duration) {
		rec, err := NewRecord(sk, p, seq, eol, ttl)
		if err != nil {
			t.Fatal(err)
		}
		if !v2 {
			rec.pb.SignatureV2 = nil
		}
		raw, err := MarshalRecord(rec)
		if err != nil {
			t.Fatal(err)
		}
		pool = append(pool, verifRec{v2, seq, eol, raw})
	}
	for _, seq := range []uint64{5, 1<<63 - 1, 1 << 63, math.MaxUint64} {
		add(true, seq, base, pa, time.Minute)
	}
	for _, d := range []time.Duration{time.Nanosecond, 500 * time.Millisecond, 500*time.Millisecond + 10*time.Nanosecond, time.Second} {
		add(true, 5, base.Add(d), pa, time.Minute)
	}
	// ties on everything but the bytes
	add(true, 5, base, pb, time.Minute)
	add(true, 5, base, pa, 2*time.Minute)
	add(true, 5, base, pb, 3*time.Minute)
	// V1-only records with a high sequence lose to any V2 record
	add(false, math.MaxUint64, base.Add(time.Hour), pa, time.Minute)
	add(false, 7, base, pb, time.Minute)

	evals, distinct := 0, 0
	var v Validator
	check := func(idx []int) {
		distinct++
		best := pool[idx[0]]
		for _, i := range idx[1:] {
			if verifBetter(pool[i], best) {
				best = pool[i]
			}
		}
		perm := append([]int{}, idx...)
		var rec func(k int)
		rec = func(k int) {
			if k == len(perm) {
				vals := make([][]byte, len(perm))
				for j, i := range perm {
					vals[j] = pool[i].bytes
				}
				evals++
				got, err := v.Select("k", vals)
				if err != nil {
					t.Fatalf("Select: %v", err)
				}
				if !bytes.Equal(vals[got], best.bytes) {
					t.Errorf("VERIF-FAIL C27: order %v of pool records %v selected a record that is not the best one", perm, idx)
				}
				return
			}
			for j := k; j < len(perm); j++ {
				perm[k], perm[j] = perm[j], perm[k]
				rec(k + 1)
				perm[k], perm[j] = perm[j], perm[k]
			}
		}
		rec(0)
	}
	n := len(pool)
	for a := 0; a < n && !t.Failed(); a++ {
		check([]int{a})
		for b := a + 1; b < n; b++ {
			check([]int{a, b})
			for c := b + 1; c < n; c++ {
				check([]int{a, b, c})
			}
		}
	}
	// one four-way tie on everything but the bytes
	check([]int{0, 8, 9, 10})
	fmt.Printf("BOUNDED-STATS {\"evaluations\": %d, \"distinct\": %d}\n", evals, distinct)
}
