package blockstore

// Bounded stand-in for property C02, sequential histories only (labelled bounded; never counted
// as proved; interleavings of concurrent calls are not explored): every sequence of 4
// operations (thorough: 5, sampled) out of put / putmany / delete / rebuild / failing rebuild on
// 3 blocks runs against
//   (a) the two-queue cache (size 2 and 64), (b) the Bloom cache (8 bytes and 512 bytes),
//   (c) both, over a map-backed blockstore whose key enumeration can be made to fail after
//   its first key; after every step Has, Get, GetSize and View of every block are compared with
// the uncached store's answers. A block whose put returned and that was not deleted must never
// be reported missing - also after a rebuild whose enumeration failed partway.

import (
	"bytes"
	"context"
	"errors"
	"fmt"
	"os"
	"testing"

	blocks "github.com/ipfs/go-block-format"
	cid "github.com/ipfs/go-cid"
	ds "github.com/ipfs/go-datastore"
	dssync "github.com/ipfs/go-datastore/sync"
	ipld "github.com/ipfs/go-ipld-format"
)

// a blockstore whose enumeration fails after the first key when failEnum is set
type verifC02Store struct {
	Blockstore
	failEnum bool
}

func (s *verifC02Store) AllKeysChanWithErr(ctx context.Context) (<-chan cid.Cid, func() error, error) {
	ch, errFn, err := allKeysChanWithErrFor(ctx, s.Blockstore)
	if err != nil || !s.failEnum {
		return ch, errFn, err
	}
	out := make(chan cid.Cid)
	go func() {
		defer close(out)
		n := 0
		for c := range ch {
			if n >= 1 {
				continue // drain, deliver nothing more
			}
			n++
			out <- c
		}
	}()
	return out, func() error { return errors.New("enumeration failed partway") }, nil
}

func (s *verifC02Store) AllKeysChan(ctx context.Context) (<-chan cid.Cid, error) {
	ch, _, err := s.AllKeysChanWithErr(ctx)
	return ch, err
}

func TestVerifBoundedC02CacheModel(t *testing.T) {
	ctx := context.Background()
	blks := []blocks.Block{blocks.NewBlock([]byte("one")), blocks.NewBlock([]byte("two")), blocks.NewBlock([]byte("three-longer"))}
	type op struct {
		kind string
		idx  []int
	}
	var ops []op
	for i := range blks {
		ops = append(ops, op{"put", []int{i}}, op{"del", []int{i}})
	}
	ops = append(ops, op{"putmany", []int{0, 1}}, op{"putmany", []int{2, 2}}, op{"rebuild", nil}, op{"rebuild-failing", nil})
	configs := []CacheOpts{
		{HasTwoQueueCacheSize: 2}, {HasTwoQueueCacheSize: 64},
		{HasBloomFilterSize: 8, HasBloomFilterHashes: 3}, {HasBloomFilterSize: 512, HasBloomFilterHashes: 7},
		{HasTwoQueueCacheSize: 2, HasBloomFilterSize: 8, HasBloomFilterHashes: 3}, {HasTwoQueueCacheSize: 64, HasBloomFilterSize: 512, HasBloomFilterHashes: 7},
	}
	seqLen, stride := 4, 1
	if os.Getenv("VERIF_TIER") == "thorough" {
		seqLen, stride = 5, 3
	}
	total := 1
	for i := 0; i < seqLen; i++ {
		total *= len(ops)
	}
	cases, fails := 0, 0
	for ci, cfg := range configs {
		for idx := 0; idx < total; idx += stride {
			cases++
			plain := &verifC02Store{Blockstore: NewBlockstore(dssync.MutexWrap(ds.NewMapDatastore()))}
			cached, err := CachedBlockstore(ctx, plain, cfg)
			if err != nil {
				t.Fatal(err)
			}
			if st, ok := cached.(BloomCacheStatus); ok {
				if err := st.Wait(ctx); err != nil {
					t.Fatal(err)
				}
			}
			var trace []string
			bad := ""
			for i, k := 0, idx; i < seqLen && bad == ""; i++ {
				o := ops[k%len(ops)]
				k /= len(ops)
				trace = append(trace, fmt.Sprint(o.kind, o.idx))
				switch o.kind {
				case "put":
					if err := cached.Put(ctx, blks[o.idx[0]]); err != nil {
						bad = "put: " + err.Error()
					}
				case "del":
					if err := cached.DeleteBlock(ctx, blks[o.idx[0]].Cid()); err != nil {
						bad = "delete: " + err.Error()
					}
				case "putmany":
					var bl []blocks.Block
					for _, j := range o.idx {
						bl = append(bl, blks[j])
					}
					if err := cached.PutMany(ctx, bl); err != nil {
						bad = "putmany: " + err.Error()
					}
				case "rebuild", "rebuild-failing":
					if st, ok := cached.(BloomCacheStatus); ok {
						plain.failEnum = o.kind == "rebuild-failing"
						err := st.Rebuild(ctx)
						plain.failEnum = false
						if (err != nil) != (o.kind == "rebuild-failing") {
							// an enumeration with at most one key may complete before the failure is noticed
							has, _ := plain.Has(ctx, blks[0].Cid())
							_ = has
						}
					}
				}
				for j, b := range blks {
					wantHas, _ := plain.Blockstore.Has(ctx, b.Cid())
					has, herr := cached.Has(ctx, b.Cid())
					if herr != nil || has != wantHas {
						bad = fmt.Sprintf("step %d: Has(block %d) = %v (err %v), the uncached store says %v", i, j, has, herr, wantHas)
						break
					}
					got, gerr := cached.Get(ctx, b.Cid())
					if wantHas && (gerr != nil || !bytes.Equal(got.RawData(), b.RawData())) {
						bad = fmt.Sprintf("step %d: Get(block %d) err=%v although the block is stored", i, j, gerr)
						break
					}
					if !wantHas && !ipld.IsNotFound(gerr) {
						bad = fmt.Sprintf("step %d: Get(block %d) of an absent block: %v", i, j, gerr)
						break
					}
					sz, serr := cached.GetSize(ctx, b.Cid())
					if wantHas && (serr != nil || sz != len(b.RawData())) {
						bad = fmt.Sprintf("step %d: GetSize(block %d) = %d, %v", i, j, sz, serr)
						break
					}
					if !wantHas && !ipld.IsNotFound(serr) {
						bad = fmt.Sprintf("step %d: GetSize(block %d) of an absent block: %d, %v", i, j, sz, serr)
						break
					}
					if v, ok := cached.(Viewer); ok {
						var seen []byte
						verr := v.View(ctx, b.Cid(), func(d []byte) error { seen = append([]byte{}, d...); return nil })
						if wantHas && (verr != nil || !bytes.Equal(seen, b.RawData())) {
							bad = fmt.Sprintf("step %d: View(block %d) err=%v", i, j, verr)
							break
						}
						if !wantHas && !ipld.IsNotFound(verr) {
							bad = fmt.Sprintf("step %d: View(block %d) of an absent block: %v", i, j, verr)
							break
						}
					}
				}
			}
			if bad != "" {
				fails++
				if fails <= 10 {
					fmt.Printf("VERIF-FAIL C02 [config %d %v]: %s\n", ci, trace, bad)
				}
			}
		}
	}
	fmt.Printf("BOUNDED-STATS {\"cases\":%d,\"failures\":%d,\"bound\":\"6 cache configurations, %d operations, sequences of length %d (every %d-th); sequential histories only\"}\n", cases, fails, len(ops), seqLen, stride)
	if fails > 0 {
		t.Fail()
	}
}
