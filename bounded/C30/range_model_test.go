package gateway

// Bounded stand-in for property C30 (labelled bounded; never counted as proved):
// the 5-byte fixture file /ipfs/<root>/subdir/fnord is requested through a real handler
// (httptest) with every single Range item and every ordered pair of items out of a list built
// around {0, size-1, size, size+1} (closed, open-ended, suffix, malformed), with GET and
// HEAD, without If-Range, with a matching and with a non-matching If-Range. For every
// response: status, Content-Range, Content-Length and body must be mutually consistent, the
// body must be exactly the requested slice of the file (or the whole file), 416 only when no
// requested range overlaps the file, and never a 5xx.

import (
	"fmt"
	"io"
	"mime"
	"mime/multipart"
	"net/http"
	"strconv"
	"strings"
	"testing"

	"github.com/ipfs/boxo/path"
)

type verifC30Range struct{ start, end int64 } // inclusive, already clamped to the file

// model of RFC 7233 section 2.1 for one item; ok=false: syntactically invalid,
// sat=false: valid but unsatisfiable for this size
func verifC30Item(item string, size int64) (r verifC30Range, ok, sat bool) {
	item = strings.TrimSpace(item)
	i := strings.Index(item, "-")
	if i < 0 {
		return r, false, false
	}
	a, b := strings.TrimSpace(item[:i]), strings.TrimSpace(item[i+1:])
	if a == "" {
		n, err := strconv.ParseInt(b, 10, 64)
		if err != nil || n < 0 || b[0] == '-' || b[0] == '+' {
			return r, false, false
		}
		if n == 0 {
			// "-0" asks for the last zero bytes: the implementation (like net/http) serves it
			// as an empty 206 "bytes size-(size-1)/size"; that is self-consistent and accepted here
			return verifC30Range{size, size - 1}, true, true
		}
		if n > size {
			n = size
		}
		return verifC30Range{size - n, size - 1}, true, size > 0
	}
	s, err := strconv.ParseInt(a, 10, 64)
	if err != nil || s < 0 || a[0] == '+' {
		return r, false, false
	}
	e := size - 1
	if b != "" {
		x, err := strconv.ParseInt(b, 10, 64)
		if err != nil || x < s || b[0] == '+' {
			return r, false, false
		}
		if x < e {
			e = x
		}
	}
	if s >= size {
		return r, true, false
	}
	return verifC30Range{s, e}, true, true
}

func TestVerifBoundedC30RangeModel(t *testing.T) {
	ts, backend, root := newTestServerAndNode(t, "fixtures.car")
	p, err := path.Join(path.FromCid(root), "subdir", "fnord")
	if err != nil {
		t.Fatal(err)
	}
	k, err := backend.resolvePathNoRootsReturned(t.Context(), p)
	if err != nil {
		t.Fatal(err)
	}
	url := ts.URL + k.String()
	file := []byte("fnord")
	size := int64(len(file))
	// the entity tag, for If-Range
	res, err := http.Get(url)
	if err != nil {
		t.Fatal(err)
	}
	whole, _ := io.ReadAll(res.Body)
	res.Body.Close()
	if string(whole) != string(file) {
		t.Fatalf("fixture content is %q", whole)
	}
	etag := res.Header.Get("Etag")
	items := []string{"0-0", "0-4", "0-5", "1-3", "2-5", "4-5", "2-", "4-", "4-4", "5-", "5-9", "6-", "-0", "-1", "-5", "-6", "-9", "3-1", "a-b", "-", "2", " 1 - 2 "}
	var headers []string
	for _, a := range items {
		headers = append(headers, "bytes="+a)
		for _, b := range items {
			headers = append(headers, "bytes="+a+","+b)
		}
	}
	headers = append(headers, "", "bytes=", "items=0-1", "bytes=0-1,2-3,4-4", "bytes=0-4,0-4,0-4")
	cases, fails := 0, 0
	fail := func(id, format string, a ...any) {
		fails++
		if fails <= 12 {
			fmt.Printf("VERIF-FAIL C30 %s: %s\n", id, fmt.Sprintf(format, a...))
		}
	}
	for _, method := range []string{http.MethodGet, http.MethodHead} {
		for _, ifr := range []string{"", "match", "other"} {
			for _, h := range headers {
				cases++
				req, _ := http.NewRequest(method, url, nil)
				if h != "" {
					req.Header.Set("Range", h)
				}
				switch ifr {
				case "match":
					req.Header.Set("If-Range", etag)
				case "other":
					req.Header.Set("If-Range", `"some-other-etag"`)
				}
				id := fmt.Sprintf("[%s Range=%q If-Range=%s]", method, h, ifr)
				res, err := http.DefaultTransport.RoundTrip(req)
				if err != nil {
					fail(id, "transport error (response inconsistent with its own headers?): %v", err)
					continue
				}
				body, rerr := io.ReadAll(res.Body)
				res.Body.Close()
				if rerr != nil {
					fail(id, "status %d: reading the body failed: %v (announced Content-Length %s)", res.StatusCode, rerr, res.Header.Get("Content-Length"))
					continue
				}
				// model: the ranges that are asked for
				var want []verifC30Range
				valid, anyItem := true, false
				spec := strings.TrimPrefix(h, "bytes=")
				if h != "" && !strings.HasPrefix(h, "bytes=") {
					valid = false
				}
				if h != "" && valid {
					for _, it := range strings.Split(spec, ",") {
						if strings.TrimSpace(it) == "" {
							continue
						}
						anyItem = true
						r, ok, sat := verifC30Item(it, size)
						if !ok {
							valid = false
							break
						}
						if sat {
							want = append(want, r)
						}
					}
				}
				rangeApplies := h != "" && valid && anyItem && ifr != "other"
				if res.StatusCode >= 500 {
					fail(id, "status %d", res.StatusCode)
					continue
				}
				if cl := res.Header.Get("Content-Length"); cl != "" && method == http.MethodGet {
					if n, _ := strconv.Atoi(cl); n != len(body) {
						fail(id, "status %d: Content-Length %s but the body has %d bytes", res.StatusCode, cl, len(body))
						continue
					}
				}
				switch res.StatusCode {
				case http.StatusOK:
					if method == http.MethodGet && string(body) != string(file) {
						fail(id, "status 200 with body %q, the file is %q", body, file)
					}
					if cl := res.Header.Get("Content-Length"); cl != "" && cl != strconv.FormatInt(size, 10) {
						fail(id, "status 200 with Content-Length %s, the file has %d bytes", cl, size)
					}
					if rangeApplies && len(want) == 1 && !(want[0].start == 0 && want[0].end == size-1) {
						// serving the whole file for a satisfiable single range is allowed by RFC 7233
						// ("a server MAY ignore the Range header"), the property only asks for consistency
					}
				case http.StatusPartialContent:
					if !rangeApplies || len(want) == 0 {
						fail(id, "status 206 although no satisfiable range applies")
						break
					}
					ct := res.Header.Get("Content-Type")
					if mt, params, _ := mime.ParseMediaType(ct); mt == "multipart/byteranges" {
						if method == http.MethodHead {
							break
						}
						mr := multipart.NewReader(strings.NewReader(string(body)), params["boundary"])
						n := 0
						for {
							part, err := mr.NextPart()
							if err != nil {
								break
							}
							pb, _ := io.ReadAll(part)
							if n >= len(want) {
								fail(id, "more multipart parts than requested ranges")
								break
							}
							exp := fmt.Sprintf("bytes %d-%d/%d", want[n].start, want[n].end, size)
							if part.Header.Get("Content-Range") != exp || string(pb) != string(file[want[n].start:want[n].end+1]) {
								fail(id, "part %d: Content-Range %q body %q, want %q %q", n, part.Header.Get("Content-Range"), pb, exp, file[want[n].start:want[n].end+1])
							}
							n++
						}
						if n != len(want) {
							fail(id, "%d multipart parts for %d satisfiable ranges", n, len(want))
						}
						break
					}
					exp := fmt.Sprintf("bytes %d-%d/%d", want[0].start, want[0].end, size)
					if cr := res.Header.Get("Content-Range"); cr != exp {
						fail(id, "status 206 Content-Range %q, the first requested range is %q", cr, exp)
						break
					}
					if method == http.MethodGet && string(body) != string(file[want[0].start:want[0].end+1]) {
						fail(id, "status 206 %s with body %q, that slice of the file is %q", exp, body, file[want[0].start:want[0].end+1])
					}
				case http.StatusRequestedRangeNotSatisfiable:
					if !valid {
						break // a malformed Range header may be answered with 416 (net/http does)
					}
					if !(h != "" && valid && anyItem && len(want) == 0) {
						fail(id, "status 416 although %d requested range(s) overlap the file (valid=%v)", len(want), valid)
					}
				case http.StatusBadRequest:
					if valid {
						fail(id, "status 400 for a syntactically valid Range header")
					}
				default:
					fail(id, "unexpected status %d", res.StatusCode)
				}
			}
		}
	}
	fmt.Printf("BOUNDED-STATS {\"cases\":%d,\"failures\":%d,\"bound\":\"5-byte file, %d Range headers x GET/HEAD x 3 If-Range settings\"}\n", cases, fails, len(headers))
	if fails > 0 {
		t.Fail()
	}
}
