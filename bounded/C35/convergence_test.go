package messagequeue

// Bounded stand-in for property C35 (labelled bounded; never counted as proved):
// every sequence of 5 operations (thorough: 6, sampled) out of {want-block c, want-have c,
// broadcast want-have c, cancel c (c in 2 CIDs), want-block both, cancel both, send one message} is applied to a message
// queue that is driven synchronously (extractOutgoingMessage / onSent / Reset, exactly what
// sendMessage does), with a message size limit small enough to split messages, with and
// without HAVE support. Every message produced is replayed onto an empty want-list of the
// remote peer (cancel removes; want-block overrides want-have; want-have never downgrades).
// After a final drain the peer's list must hold exactly the CIDs the client still wants from
// that peer, with the strongest requested type; a cancelled want is never left at the peer.

import (
	"context"
	"fmt"
	"os"
	"strings"
	"testing"

	pb "github.com/ipfs/boxo/bitswap/message/pb"
	cid "github.com/ipfs/go-cid"
	mh "github.com/multiformats/go-multihash"
)

func TestVerifBoundedC35Convergence(t *testing.T) {
	mk := func(s string) cid.Cid {
		h, _ := mh.Sum([]byte(s), mh.SHA2_256, -1)
		return cid.NewCidV1(cid.Raw, h)
	}
	cs := []cid.Cid{mk("one"), mk("two")}
	type op struct {
		kind string
		c    int
	}
	var ops []op
	for i := range cs {
		ops = append(ops, op{"block", i}, op{"have", i}, op{"bcast", i}, op{"cancel", i})
	}
	// requests naming both CIDs at once: with the one-entry size limit their wants and cancels are
	// split across several messages
	ops = append(ops, op{"send", 0}, op{"blockall", 0}, op{"cancelall", 0})
	seqLen, stride := 5, 1
	if os.Getenv("VERIF_TIER") == "thorough" {
		seqLen, stride = 6, 5
	}
	total := 1
	for i := 0; i < seqLen; i++ {
		total *= len(ops)
	}
	cases, fails := 0, 0
	knownShape, otherShape := 0, 0
	for _, supportsHave := range []bool{true, false} {
		for _, maxSize := range []int{1, 1 << 20} {
			for idx := 0; idx < total; idx += stride {
				cases++
				mq := newMessageQueue(context.Background(), "peer", &fakeMessageNetwork{}, maxSize, sendErrorBackoff, maxValidLatency, nil, nil)
				peerList := map[cid.Cid]pb.Message_Wantlist_WantType{}
				// client model: what the client currently wants from this peer
				wantBlock := map[int]bool{}
				wantHave := map[int]bool{}
				wantBcast := map[int]bool{}
				send := func() {
					msg, onSent := mq.extractOutgoingMessage(supportsHave)
					for _, e := range msg.Wantlist() {
						if e.Cancel {
							delete(peerList, e.Cid)
							continue
						}
						if old, ok := peerList[e.Cid]; !ok || (old == pb.Message_Wantlist_Have && e.WantType == pb.Message_Wantlist_Block) {
							peerList[e.Cid] = e.WantType
						}
					}
					onSent()
					mq.msg.Reset(false)
				}
				var trace []string
				for i, k := 0, idx; i < seqLen; i++ {
					o := ops[k%len(ops)]
					k /= len(ops)
					trace = append(trace, fmt.Sprintf("%s%d", o.kind, o.c))
					switch o.kind {
					case "block":
						mq.AddWants([]cid.Cid{cs[o.c]}, nil)
						wantBlock[o.c] = true
					case "have":
						mq.AddWants(nil, []cid.Cid{cs[o.c]})
						wantHave[o.c] = true
					case "bcast":
						mq.AddBroadcastWantHaves([]cid.Cid{cs[o.c]})
						wantBcast[o.c] = true
					case "cancel":
						mq.AddCancels([]cid.Cid{cs[o.c]})
						delete(wantBlock, o.c)
						delete(wantHave, o.c)
						delete(wantBcast, o.c)
					case "blockall":
						mq.AddWants(cs, nil)
						wantBlock[0], wantBlock[1] = true, true
					case "cancelall":
						mq.AddCancels(cs)
						for i := range cs {
							delete(wantBlock, i)
							delete(wantHave, i)
							delete(wantBcast, i)
						}
					case "send":
						send()
					}
				}
				for n := 0; n < 20 && mq.pendingWorkCount() > 0; n++ {
					send()
				}
				bad := ""
				if mq.pendingWorkCount() > 0 {
					bad = "the queue does not drain"
				}
				for i, c := range cs {
					var want pb.Message_Wantlist_WantType
					wanted := false
					switch {
					case wantBlock[i]:
						want, wanted = pb.Message_Wantlist_Block, true
					case wantBcast[i] && !supportsHave:
						want, wanted = pb.Message_Wantlist_Block, true
					case (wantHave[i] && supportsHave) || wantBcast[i]:
						want, wanted = pb.Message_Wantlist_Have, true
					}
					got, has := peerList[c]
					if has != wanted {
						bad = fmt.Sprintf("CID %d: at the peer=%v, still wanted by the client=%v", i, has, wanted)
						// the recorded finding needs a cancel of this CID followed, with no message
						// sent in between, by a new request for it (which drops the queued cancel)
						me, all := fmt.Sprintf("%d", i), "all0"
						cancelQueued := false
						for _, tr := range trace {
							switch {
							case tr == "cancel"+me || tr == "cancel"+all:
								cancelQueued = true
							case tr == "send0":
								cancelQueued = false
							case cancelQueued && (tr == "block"+me || tr == "have"+me || tr == "bcast"+me || tr == "block"+all):
								bad += " (queued cancel dropped by a new request before it was sent)"
								cancelQueued = false
							}
						}
					} else if wanted && got != want && !(got == pb.Message_Wantlist_Block && want == pb.Message_Wantlist_Have) {
						bad = fmt.Sprintf("CID %d: the peer holds type %v, the strongest requested type is %v", i, got, want)
					}
				}
				if bad != "" {
					fails++
					// failures of the recorded pattern must not crowd out a different one
					if strings.Contains(bad, "queued cancel dropped") {
						knownShape++
					} else {
						otherShape++
					}
					if (strings.Contains(bad, "queued cancel dropped") && knownShape <= 5) || (!strings.Contains(bad, "queued cancel dropped") && otherShape <= 10) {
						fmt.Printf("VERIF-FAIL C35 [supportsHave=%v maxSize=%d %v]: %s\n", supportsHave, maxSize, trace, bad)
					}
				}
			}
		}
	}
	fmt.Printf("BOUNDED-STATS {\"cases\":%d,\"failures\":%d,\"bound\":\"%d operations, sequences of length %d (every %d-th), HAVE support on/off, message size limit 1 byte / 1 MiB\"}\n", cases, fails, len(ops), seqLen, stride)
	if fails > 0 {
		t.Fail()
	}
}
